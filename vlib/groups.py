"""Group configurations under test: for each one the library object, random/boundary input
generators and the *oracle's* parameter->matrix and algebra hat maps (independent of the
library's to_Matrix)."""
from __future__ import annotations

import numpy as np

from . import oracles as O

PI = np.pi


def angle_mix(rng, N, hi=PI, near_hi=True):
    """rotation angles in [0, hi]: broad + tiny + near-hi + exact 0"""
    u = rng.random(N)
    th = rng.uniform(0, hi, N)
    m = u < 0.15
    th[m] = O.loguniform(rng, 1e-9, 1e-1, m.sum())
    m = (u >= 0.15) & (u < 0.20)
    th[m] = O.loguniform(rng, 1e-300, 1e-9, m.sum())
    if near_hi:
        m = (u >= 0.20) & (u < 0.28)
        th[m] = hi - O.loguniform(rng, 1e-9, 0.1, m.sum())
    m = (u >= 0.28) & (u < 0.30)
    th[m] = 0.0
    return np.clip(th, 0, hi)


def trans_mix(rng, N, k, lo=1e-6, hi=1e3):
    """translations: log-uniform magnitudes, mixed signs, some exact zeros"""
    t = O.signed_loguniform(rng, lo, hi, (N, k))
    z = rng.random(N) < 0.05
    t[z] = 0.0
    return t


class Spec:
    name = "?"
    n = 0
    na = 0
    md = 0
    has_rotation = False

    def lib(self):
        raise NotImplementedError

    def scale(self, P):
        return np.ones(len(P))

    def alg_scale(self, X):
        return np.ones(len(X))

    def basis(self):
        E = np.eye(self.na)
        return self.hat(E)  # (na, md, md)

    def vee(self, M):
        """least squares vee on the oracle's basis images"""
        B = self.basis().reshape(self.na, -1).T  # (md*md, na)
        M = np.asarray(M).reshape(len(M), -1).T
        sol, *_ = np.linalg.lstsq(B, M, rcond=None)
        return sol.T

    def rot(self, P):
        """rotation matrices of the elements (N,3,3) or None"""
        return None

    def alg_angle(self, X):
        return np.zeros(len(X))


# --------------------------------------------------------------------------- SO(3)
class SO3Spec(Spec):
    na = 3
    md = 3
    has_rotation = True

    def __init__(self, kind):
        self.kind = kind
        self.name = {"quat": "SO3Quat", "mrp": "SO3Mrp", "dcm": "SO3Dcm", "euler": "SO3EulerB321"}[kind]
        self.n = {"quat": 4, "mrp": 3, "dcm": 9, "euler": 3}[kind]

    def lib(self):
        import cyecca.lie as L
        return getattr(L, self.name)

    def mat(self, P):
        P = np.asarray(P, dtype=float)
        if self.kind == "quat":
            return O.quat_to_R(P)
        if self.kind == "mrp":
            return O.mrp_to_R(P)
        if self.kind == "dcm":
            return O.dcm_to_R(P)
        return O.euler321_to_R(P)

    rot = mat

    def hat(self, X):
        return O.hat3(X)

    def alg_angle(self, X):
        return np.linalg.norm(X, axis=-1)

    def from_axang(self, axis, th, rng, canonical=False):
        """parameters of the rotation exp(th*[axis]x), by the oracle's formulas.
        canonical: quaternion with q0>=0 stays as is (sign not flipped), MRP on the
        non-shadow branch."""
        N = len(th)
        if self.kind == "quat":
            q = O.axang_to_quat(axis, th)
            if not canonical:
                q = q * rng.choice([-1.0, 1.0], size=(N, 1))
            return q
        if self.kind == "mrp":
            r = O.axang_to_mrp(axis, th)
            if not canonical:
                flip = (rng.random(N) < 0.35) & (th > 2e-2)  # shadow norm <= ~200: error amplification ~|r|^2
                r = np.where(flip[:, None], O.axang_to_mrp(axis, th - 2 * PI), r)
            return r
        R = O.rodrigues(axis * th[:, None])
        if self.kind == "dcm":
            return O.dcm_param(R)
        return O.R_to_euler321(R)

    def from_R(self, R, rng, canonical=False):
        N = len(R)
        if self.kind == "dcm":
            return O.dcm_param(R)
        if self.kind == "euler":
            return O.R_to_euler321(R)
        q = O.R_to_quat(R)
        q = np.where(q[:, :1] < 0, -q, q)
        if self.kind == "quat":
            if not canonical:
                q = q * rng.choice([-1.0, 1.0], size=(N, 1))
            return q
        r = q[:, 1:] / (1 + q[:, :1])
        if not canonical:
            n2 = np.sum(r * r, axis=1)
            flip = (rng.random(N) < 0.35) & (n2 > 2.5e-5)
            r = np.where(flip[:, None], -r / np.where(n2 > 0, n2, 1)[:, None], r)
        return r

    def gimbal_dist(self, R):
        """|pitch| distance to pi/2 of matrices R"""
        return PI / 2 - np.abs(np.arcsin(np.clip(-R[..., 2, 0], -1, 1)))

    def rand(self, rng, N, hi=PI, canonical=False, near_hi=True, **kw):
        if self.kind == "euler":
            out = np.empty((0, 3))
            while len(out) < N:
                axis = O.random_axes(rng, N)
                th = angle_mix(rng, N, hi, near_hi)
                e = self.from_axang(axis, th, rng)
                # a quarter sampled directly in angle space (covers pitch close to the band)
                k = N // 4
                e[:k, 0] = rng.uniform(-PI, PI, k)
                e[:k, 2] = rng.uniform(-PI, PI, k)
                e[:k, 1] = rng.choice([-1, 1], k) * (PI / 2 - O.loguniform(rng, 3e-3, 1.5, k))
                ok = (PI / 2 - np.abs(e[:, 1])) > 2.5e-3
                out = np.concatenate([out, e[ok]])
            return out[:N]
        axis = O.random_axes(rng, N)
        th = angle_mix(rng, N, hi, near_hi)
        return self.from_axang(axis, th, rng, canonical)

    def alg_rand(self, rng, N, hi=2 * PI - 0.05, **kw):
        return O.random_axes(rng, N) * angle_mix(rng, N, hi)[:, None]


class EulerSeqSpec(Spec):
    """SO3EulerLieGroup with an arbitrary type/sequence (public class).  The library offers to_Matrix, identity and Ad
    for these; product/inverse/exp/log need from_Matrix, which raises NotImplementedError except for body-fixed 3-2-1."""
    na = 3
    md = 3
    n = 3
    has_rotation = True

    def __init__(self, etype, seq):
        self.etype = etype
        self.seq = seq
        self.name = "SO3Euler[%s,%s]" % (etype, "".join(seq))
        self._lib = None

    def lib(self):
        if self._lib is None:
            from cyecca.lie.group_so3 import SO3EulerLieGroup, EulerType, Axis
            self._lib = SO3EulerLieGroup(euler_type=getattr(EulerType, self.etype), sequence=[getattr(Axis, a) for a in self.seq])
        return self._lib

    def mat(self, P):
        P = np.asarray(P, dtype=float)
        R = {"x": O.Rx, "y": O.Ry, "z": O.Rz}
        M = np.tile(np.eye(3), (len(P), 1, 1))
        for k, a in enumerate(self.seq):
            Rk = R[a](P[:, k])
            M = M @ Rk if self.etype == "body_fixed" else Rk @ M
        return M

    rot = mat

    def hat(self, X):
        return O.hat3(X)

    def alg_angle(self, X):
        return np.linalg.norm(X, axis=-1)

    def rand(self, rng, N, hi=PI, **kw):
        return rng.uniform(-PI, PI, (N, 3))

    def alg_rand(self, rng, N, hi=2 * PI - 0.05, **kw):
        return O.random_axes(rng, N) * angle_mix(rng, N, hi)[:, None]


def extra_euler_specs():
    return [EulerSeqSpec("space_fixed", ("x", "y", "z")), EulerSeqSpec("body_fixed", ("x", "z", "y")), EulerSeqSpec("space_fixed", ("z", "y", "x"))]


# --------------------------------------------------------------------------- SE(3), SE_2(3)
class SE3Spec(Spec):
    na = 6
    md = 4
    has_rotation = True

    def __init__(self, so3):
        self.so3 = so3
        self.name = "SE3" + so3.name[3:]
        self.n = 3 + so3.n
        self._lib = None

    def lib(self):
        if self._lib is None:
            import cyecca.lie as L
            if self.so3.kind == "quat":
                self._lib = L.SE3Quat
            elif self.so3.kind == "mrp":
                self._lib = L.SE3Mrp
            else:
                from cyecca.lie.group_se3 import SE3LieGroup
                self._lib = SE3LieGroup(SO3=self.so3.lib())
        return self._lib

    def mat(self, P):
        P = np.asarray(P, dtype=float)
        M = np.zeros((len(P), 4, 4))
        M[:, :3, :3] = self.so3.mat(P[:, 3:])
        M[:, :3, 3] = P[:, :3]
        M[:, 3, 3] = 1
        return M

    def rot(self, P):
        return self.so3.mat(np.asarray(P)[:, 3:])

    def hat(self, X):
        X = np.asarray(X, dtype=float)
        M = np.zeros((len(X), 4, 4))
        M[:, :3, :3] = O.hat3(X[:, 3:])
        M[:, :3, 3] = X[:, :3]
        return M

    def scale(self, P):
        return np.maximum(1, np.abs(np.asarray(P)[:, :3]).max(axis=1))

    def alg_scale(self, X):
        return np.maximum(1, np.abs(np.asarray(X)[:, :3]).max(axis=1))

    def alg_angle(self, X):
        return np.linalg.norm(np.asarray(X)[:, 3:], axis=-1)

    def rand(self, rng, N, hi=PI, canonical=False, tlo=1e-6, thi=1e3, near_hi=True, **kw):
        return np.concatenate([trans_mix(rng, N, 3, tlo, thi), self.so3.rand(rng, N, hi, canonical, near_hi)], axis=1)

    def alg_rand(self, rng, N, hi=2 * PI - 0.05, tlo=1e-6, thi=1e3, **kw):
        return np.concatenate([trans_mix(rng, N, 3, tlo, thi), self.so3.alg_rand(rng, N, hi)], axis=1)

    def split(self, P):
        return np.asarray(P)[:, :3], np.asarray(P)[:, 3:]


class SE23Spec(Spec):
    na = 9
    md = 5
    has_rotation = True

    def __init__(self, so3):
        self.so3 = so3
        self.name = "SE23" + so3.name[3:]
        self.n = 6 + so3.n
        self._lib = None

    def lib(self):
        if self._lib is None:
            import cyecca.lie as L
            if self.so3.kind == "quat":
                self._lib = L.SE23Quat
            elif self.so3.kind == "mrp":
                self._lib = L.SE23Mrp
            else:
                from cyecca.lie.group_se23 import SE23LieGroup
                self._lib = SE23LieGroup(SO3=self.so3.lib())
        return self._lib

    def mat(self, P):
        P = np.asarray(P, dtype=float)
        M = np.zeros((len(P), 5, 5))
        M[:, :3, :3] = self.so3.mat(P[:, 6:])
        M[:, :3, 3] = P[:, 3:6]  # velocity
        M[:, :3, 4] = P[:, :3]  # position
        M[:, 3, 3] = 1
        M[:, 4, 4] = 1
        return M

    def rot(self, P):
        return self.so3.mat(np.asarray(P)[:, 6:])

    def hat(self, X):
        X = np.asarray(X, dtype=float)
        M = np.zeros((len(X), 5, 5))
        M[:, :3, :3] = O.hat3(X[:, 6:])
        M[:, :3, 3] = X[:, 3:6]  # a_b
        M[:, :3, 4] = X[:, :3]  # v_b
        return M

    def scale(self, P):
        return np.maximum(1, np.abs(np.asarray(P)[:, :6]).max(axis=1))

    def alg_scale(self, X):
        return np.maximum(1, np.abs(np.asarray(X)[:, :6]).max(axis=1))

    def alg_angle(self, X):
        return np.linalg.norm(np.asarray(X)[:, 6:], axis=-1)

    def rand(self, rng, N, hi=PI, canonical=False, tlo=1e-6, thi=1e3, near_hi=True, **kw):
        return np.concatenate([trans_mix(rng, N, 6, tlo, thi), self.so3.rand(rng, N, hi, canonical, near_hi)], axis=1)

    def alg_rand(self, rng, N, hi=2 * PI - 0.05, tlo=1e-6, thi=1e3, **kw):
        return np.concatenate([trans_mix(rng, N, 6, tlo, thi), self.so3.alg_rand(rng, N, hi)], axis=1)


# --------------------------------------------------------------------------- planar and R^n
class SO2Spec(Spec):
    name = "SO2"
    n = 1
    na = 1
    md = 2

    def lib(self):
        import cyecca.lie as L
        return L.SO2

    def mat(self, P):
        th = np.asarray(P, dtype=float)[:, 0]
        M = np.empty((len(th), 2, 2))
        M[:, 0, 0] = np.cos(th)
        M[:, 0, 1] = -np.sin(th)
        M[:, 1, 0] = np.sin(th)
        M[:, 1, 1] = np.cos(th)
        return M

    def hat(self, X):
        w = np.asarray(X, dtype=float)[:, 0]
        M = np.zeros((len(w), 2, 2))
        M[:, 0, 1] = -w
        M[:, 1, 0] = w
        return M

    def alg_angle(self, X):
        return np.abs(np.asarray(X)[:, 0])

    def rand(self, rng, N, hi=PI, **kw):
        return (angle_mix(rng, N, hi) * rng.choice([-1.0, 1.0], N))[:, None]

    def alg_rand(self, rng, N, hi=2 * PI - 0.05, **kw):
        return (angle_mix(rng, N, hi) * rng.choice([-1.0, 1.0], N))[:, None]


class SE2Spec(Spec):
    name = "SE2"
    n = 3
    na = 3
    md = 3

    def lib(self):
        import cyecca.lie as L
        return L.SE2

    def mat(self, P):
        P = np.asarray(P, dtype=float)
        M = np.zeros((len(P), 3, 3))
        th = P[:, 2]
        M[:, 0, 0] = np.cos(th)
        M[:, 0, 1] = -np.sin(th)
        M[:, 1, 0] = np.sin(th)
        M[:, 1, 1] = np.cos(th)
        M[:, :2, 2] = P[:, :2]
        M[:, 2, 2] = 1
        return M

    def hat(self, X):
        X = np.asarray(X, dtype=float)
        M = np.zeros((len(X), 3, 3))
        M[:, 0, 1] = -X[:, 2]
        M[:, 1, 0] = X[:, 2]
        M[:, :2, 2] = X[:, :2]
        return M

    def scale(self, P):
        return np.maximum(1, np.abs(np.asarray(P)[:, :2]).max(axis=1))

    alg_scale = scale

    def alg_angle(self, X):
        return np.abs(np.asarray(X)[:, 2])

    def rand(self, rng, N, hi=PI, tlo=1e-6, thi=1e3, **kw):
        return np.concatenate([trans_mix(rng, N, 2, tlo, thi),
                               (angle_mix(rng, N, hi) * rng.choice([-1.0, 1.0], N))[:, None]], axis=1)

    def alg_rand(self, rng, N, hi=2 * PI - 0.05, tlo=1e-6, thi=1e3, **kw):
        return self.rand(rng, N, hi, tlo=tlo, thi=thi)


class RnSpec(Spec):
    def __init__(self, k):
        self.k = k
        self.name = "R%d" % k
        self.n = k
        self.na = k
        self.md = k + 1

    def lib(self):
        import cyecca.lie as L
        if hasattr(L, self.name):
            return getattr(L, self.name)
        if getattr(self, "_lib", None) is None:  # R^n for other n through the public classes
            from cyecca.lie.group_rn import RnLieAlgebra, RnLieGroup
            self._lib = RnLieGroup(algebra=RnLieAlgebra(self.k))
        return self._lib

    def mat(self, P):
        P = np.asarray(P, dtype=float)
        M = np.zeros((len(P), self.md, self.md))
        M[:] = np.eye(self.md)
        M[:, : self.k, self.k] = P
        return M

    def hat(self, X):
        X = np.asarray(X, dtype=float)
        M = np.zeros((len(X), self.md, self.md))
        M[:, : self.k, self.k] = X
        return M

    def scale(self, P):
        return np.maximum(1, np.abs(np.asarray(P)).max(axis=1))

    alg_scale = scale

    def rand(self, rng, N, hi=PI, tlo=1e-6, thi=1e3, **kw):
        return trans_mix(rng, N, self.k, tlo, thi)

    def alg_rand(self, rng, N, hi=None, tlo=1e-6, thi=1e3, **kw):
        return trans_mix(rng, N, self.k, tlo, thi)


# --------------------------------------------------------------------------- direct products
class ProductSpec(Spec):
    def __init__(self, parts, how=None):
        """parts: flat list of base specs; how: nesting description for building the lib object,
        e.g. None -> ((A*B)*C) left fold.  '(A*B)*(C*D)' handled by nested=True"""
        self.parts = parts
        self.how = how
        self.name = " x ".join(p.name for p in parts) + ("" if how is None else "[%s]" % how)
        self.n = sum(p.n for p in parts)
        self.na = sum(p.na for p in parts)
        self.md = sum(p.md for p in parts)
        self.has_rotation = any(p.has_rotation for p in parts)
        self._lib = None

    def lib(self):
        if self._lib is None:
            if self.how == "nested" and len(self.parts) == 4:
                a, b, c, d = [p.lib() for p in self.parts]
                self._lib = (a * b) * (c * d)
            else:
                g = self.parts[0].lib()
                for p in self.parts[1:]:
                    g = g * p.lib()
                self._lib = g
        return self._lib

    def _split(self, P, attr):
        out = []
        i = 0
        for p in self.parts:
            k = getattr(p, attr)
            out.append(np.asarray(P)[:, i:i + k])
            i += k
        return out

    def _blockdiag(self, Ms):
        N = len(Ms[0])
        M = np.zeros((N, self.md, self.md))
        i = 0
        for m in Ms:
            k = m.shape[1]
            M[:, i:i + k, i:i + k] = m
            i += k
        return M

    def mat(self, P):
        return self._blockdiag([p.mat(x) for p, x in zip(self.parts, self._split(P, "n"))])

    def hat(self, X):
        return self._blockdiag([p.hat(x) for p, x in zip(self.parts, self._split(X, "na"))])

    def scale(self, P):
        return np.max([p.scale(x) for p, x in zip(self.parts, self._split(P, "n"))], axis=0)

    def alg_scale(self, X):
        return np.max([p.alg_scale(x) for p, x in zip(self.parts, self._split(X, "na"))], axis=0)

    def alg_angle(self, X):
        return np.max([p.alg_angle(x) for p, x in zip(self.parts, self._split(X, "na"))], axis=0)

    def rand(self, rng, N, hi=PI, **kw):
        return np.concatenate([p.rand(rng, N, hi, **kw) for p in self.parts], axis=1)

    def alg_rand(self, rng, N, hi=2 * PI - 0.05, **kw):
        return np.concatenate([p.alg_rand(rng, N, hi, **kw) for p in self.parts], axis=1)


SO3S = {k: SO3Spec(k) for k in ("quat", "mrp", "dcm", "euler")}


def base_specs():
    out = [SO2Spec(), SE2Spec(), RnSpec(2), RnSpec(3), RnSpec(1), RnSpec(5)]
    out += [SO3S[k] for k in ("quat", "mrp", "dcm", "euler")]
    out += [SE3Spec(SO3S[k]) for k in ("quat", "mrp", "dcm", "euler")]
    out += [SE23Spec(SO3S[k]) for k in ("quat", "mrp", "dcm", "euler")]
    return out


def product_specs(rng, tier):
    base = base_specs()
    by = {s.name: s for s in base}
    out = [ProductSpec([by["SO3Mrp"], by["R3"]]),  # the estimator's state group
           ProductSpec([by["SO2"], by["SE2"]]),
           ProductSpec([by["SE3Quat"], by["SO3Dcm"]]),
           ProductSpec([by["R2"], by["SO3Quat"], by["SE23Mrp"]]),
           ProductSpec([by["SE2"], by["SO3EulerB321"], by["R3"], by["SE3Mrp"]], how="nested")]
    if tier == "thorough":
        for a in base:
            for b in base:
                out.append(ProductSpec([a, b]))
        for _ in range(20):
            idx = rng.integers(0, len(base), 3)
            out.append(ProductSpec([base[i] for i in idx]))
        for _ in range(10):
            idx = rng.integers(0, len(base), 4)
            out.append(ProductSpec([base[i] for i in idx], how="nested"))
    else:
        for _ in range(6):
            idx = rng.integers(0, len(base), 2)
            out.append(ProductSpec([base[i] for i in idx]))
        idx = rng.integers(0, len(base), 3)
        out.append(ProductSpec([base[i] for i in idx]))
    # de-duplicate by name
    seen = {}
    for s in out:
        seen.setdefault(s.name, s)
    return list(seen.values())
