"""Calling convention monitor: every shipped CasADi Function can be called positionally or by argument name
(`f(x=..., dt=...)['x1']`, which is how the estimator node, the notebooks and generated-code users address
them).  All oracles in the property checks use the positional convention; this monitor makes the by-name
convention observable: binding the documented names (vlib/signatures.json, pinned from the repository by
tools/pin_signatures.py) must give exactly the positional results."""
from __future__ import annotations

import contextlib
import importlib
import io
import json
import os

import numpy as np
import casadi as ca

_SIG = None
_CACHE = {}


def signatures():
    global _SIG
    if _SIG is None:
        with open(os.path.join(os.path.dirname(os.path.abspath(__file__)), "signatures.json")) as fh:
            _SIG = json.load(fh)
    return _SIG


def _walk(r, out):
    if isinstance(r, ca.Function):
        out[r.name()] = r
    elif isinstance(r, dict):
        for v in r.values():
            _walk(v, out)


def shipped(prefix):
    """{function name: Function} for one pinned prefix ('rdd2', 'bezier', 'attitude.mrp', ...)"""
    if prefix in _CACHE:
        return _CACHE[prefix]
    out = {}
    with contextlib.redirect_stdout(io.StringIO()):
        if prefix.startswith("attitude."):
            from cyecca.estimate.attitude import algorithms
            _walk(algorithms.eqs()[prefix.split(".", 1)[1]], out)
        else:
            mod = importlib.import_module("cyecca.models." + prefix)
            for n in sorted(dir(mod)):
                if n.startswith("derive_") and callable(getattr(mod, n)):
                    try:
                        _walk(getattr(mod, n)(), out)
                    except Exception:
                        pass
    _CACHE[prefix] = out
    return out


def monitor(ctx, keys, rng, n=5):
    """keys: 'prefix:function' entries of signatures.json"""
    sig = signatures()
    for key in keys:
        prefix, fname = key.split(":")
        f = shipped(prefix).get(fname)
        pin = sig.get(key)
        if f is None or pin is None:
            ctx.count("named_call_not_available:" + key)
            continue
        have_in = [f.name_in(i) for i in range(f.n_in())]
        have_out = [f.name_out(i) for i in range(f.n_out())]
        if sorted(have_in) != sorted(pin["in"]) or sorted(have_out) != sorted(pin["out"]):
            ctx.skip("named_call:interface_renamed:" + key)  # a rename is an interface change, not a wrong binding
            continue
        if not pin["in"]:
            continue
        for _ in range(n):
            vals = [np.asarray(rng.normal(size=f.size_in(i)) * float(rng.choice([0.3, 1.0, 3.0]))) for i in range(f.n_in())]
            try:
                pos = [np.array(ca.DM(o).full()) for o in f.call([ca.DM(v) for v in vals])]
            except Exception:
                ctx.count("named_call_positional_failed:" + key)
                break
            ctx.tally("call_by_argument_name:" + key)
            ctx.tally("call_by_argument_name")
            try:
                r = f(**{pin["in"][i]: ca.DM(vals[i]) for i in range(f.n_in())})
                named = [np.array(ca.DM(r[nm]).full()) for nm in pin["out"]]
            except Exception as e:
                ctx.violation("call_by_argument_name", key, {"exception": "%s: %s" % (type(e).__name__, str(e)[:200]), "documented_arguments": pin["in"], "function_arguments": have_in})
                break
            bad = [pin["out"][j] for j in range(len(pos)) if pos[j].shape != named[j].shape or not np.array_equal(pos[j], named[j], equal_nan=True)]
            if bad:
                ctx.violation("call_by_argument_name", key, {"results_that_differ": bad, "documented_arguments": pin["in"], "function_arguments": have_in,
                                                             "documented_results": pin["out"], "function_results": have_out,
                                                             "inputs": {pin["in"][i]: vals[i].ravel()[:12] for i in range(f.n_in())}})
                break


def _derive_all(prefix, reverse=False):
    out = {}
    with contextlib.redirect_stdout(io.StringIO()):
        if prefix.startswith("attitude."):
            from cyecca.estimate.attitude import algorithms
            _walk(algorithms.eqs()[prefix.split(".", 1)[1]], out)
            return out
        mod = importlib.import_module("cyecca.models." + prefix)
        names = [n for n in sorted(dir(mod), reverse=reverse) if n.startswith("derive_") and callable(getattr(mod, n))]
        for n in names:
            try:
                _walk(getattr(mod, n)(), out)
            except Exception:
                pass
    return out


def derivation_history(ctx, prefixes, rng, n=3):
    """what a derive_* call returns depends on the code, not on which derive_* calls came before it in the process:
    derive everything, derive everything again in the opposite order, compare the functions on the same inputs"""
    for prefix in prefixes:
        first = _derive_all(prefix)
        again = _derive_all(prefix, reverse=True)
        for name, f in first.items():
            g = again.get(name)
            key = prefix + ":" + name
            if g is None or g.n_in() != f.n_in() or g.n_out() != f.n_out() or any(g.size_in(i) != f.size_in(i) for i in range(f.n_in())):
                ctx.violation("derivation_independent_of_earlier_derivations", key, {"second_derivation": None if g is None else str(g)[:200], "first": str(f)[:200]})
                continue
            if f.n_in() == 0:
                continue
            for _ in range(n):
                vals = [ca.DM(np.asarray(rng.normal(size=f.size_in(i)))) for i in range(f.n_in())]
                try:
                    a = [np.array(ca.DM(o).full()) for o in f.call(vals)]
                    b = [np.array(ca.DM(o).full()) for o in g.call(vals)]
                except Exception:
                    ctx.count("derivation_history_eval_failed:" + key)
                    break
                ctx.tally("derivation_independent_of_earlier_derivations")
                bad = [f.name_out(j) for j in range(len(a)) if a[j].shape != b[j].shape or not np.array_equal(a[j], b[j], equal_nan=True)]
                if bad:
                    ctx.violation("derivation_independent_of_earlier_derivations", key, {"results_that_differ": bad, "inputs": [np.array(v).ravel()[:12] for v in vals]})
                    break
