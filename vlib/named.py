"""Calling convention monitor: every shipped CasADi Function can be called positionally or by argument name
(`f(x=..., dt=...)['x1']`, which is how the estimator node, the notebooks and generated-code users address
them).  All oracles in the property checks use the positional convention; this monitor makes the by-name
convention observable: binding the documented names (vlib/signatures.json, pinned from the repository by
tools/pin_signatures.py) must give exactly the positional results."""
from __future__ import annotations

import contextlib
import importlib
import io
import json
import os

import numpy as np
import casadi as ca

_SIG = None
_CACHE = {}


def signatures():
    global _SIG
    if _SIG is None:
        with open(os.path.join(os.path.dirname(os.path.abspath(__file__)), "signatures.json")) as fh:
            _SIG = json.load(fh)
    return _SIG


def _walk(r, out):
    if isinstance(r, ca.Function):
        out[r.name()] = r
    elif isinstance(r, dict):
        for v in r.values():
            _walk(v, out)


def shipped(prefix):
    """{function name: Function} for one pinned prefix ('rdd2', 'bezier', 'attitude.mrp', ...)"""
    if prefix in _CACHE:
        return _CACHE[prefix]
    out = {}
    with contextlib.redirect_stdout(io.StringIO()):
        if prefix.startswith("attitude."):
            from cyecca.estimate.attitude import algorithms
            _walk(algorithms.eqs()[prefix.split(".", 1)[1]], out)
        else:
            mod = importlib.import_module("cyecca.models." + prefix)
            for n in sorted(dir(mod)):
                if n.startswith("derive_") and callable(getattr(mod, n)):
                    try:
                        _walk(getattr(mod, n)(), out)
                    except Exception:
                        pass
    _CACHE[prefix] = out
    return out


def monitor(ctx, keys, rng, n=5):
    """keys: 'prefix:function' entries of signatures.json"""
    sig = signatures()
    for key in keys:
        prefix, fname = key.split(":")
        f = shipped(prefix).get(fname)
        pin = sig.get(key)
        if f is None or pin is None:
            ctx.count("named_call_not_available:" + key)
            continue
        have_in = [f.name_in(i) for i in range(f.n_in())]
        have_out = [f.name_out(i) for i in range(f.n_out())]
        if sorted(have_in) != sorted(pin["in"]) or sorted(have_out) != sorted(pin["out"]):
            ctx.skip("named_call:interface_renamed:" + key)  # a rename is an interface change, not a wrong binding
            continue
        if not pin["in"]:
            continue
        for _ in range(n):
            vals = [np.asarray(rng.normal(size=f.size_in(i)) * float(rng.choice([0.3, 1.0, 3.0]))) for i in range(f.n_in())]
            try:
                pos = [np.array(ca.DM(o).full()) for o in f.call([ca.DM(v) for v in vals])]
            except Exception:
                ctx.count("named_call_positional_failed:" + key)
                break
            ctx.tally("call_by_argument_name:" + key)
            ctx.tally("call_by_argument_name")
            try:
                r = f(**{pin["in"][i]: ca.DM(vals[i]) for i in range(f.n_in())})
                named = [np.array(ca.DM(r[nm]).full()) for nm in pin["out"]]
            except Exception as e:
                ctx.violation("call_by_argument_name", key, {"exception": "%s: %s" % (type(e).__name__, str(e)[:200]), "documented_arguments": pin["in"], "function_arguments": have_in})
                break
            bad = [pin["out"][j] for j in range(len(pos)) if pos[j].shape != named[j].shape or not np.array_equal(pos[j], named[j], equal_nan=True)]
            if bad:
                ctx.violation("call_by_argument_name", key, {"results_that_differ": bad, "documented_arguments": pin["in"], "function_arguments": have_in,
                                                             "documented_results": pin["out"], "function_results": have_out,
                                                             "inputs": {pin["in"][i]: vals[i].ravel()[:12] for i in range(f.n_in())}})
                break
