"""Generic C driver for CasADi-generated code: allocates arg/res/iw/w with exactly the sizes the
generated *_work function reports (so sanitizer red zones sit right behind them), feeds inputs from a
binary stream and dumps outputs.  Built with clang ASan+UBSan (or gcc -O0 for valgrind)."""
from __future__ import annotations

import os
import struct
import subprocess

import numpy as np

DRIVER_TMPL = r'''
#include <stdio.h>
#include <stdlib.h>
#include <string.h>
#ifdef __cplusplus
extern "C" {
#endif
typedef long long int casadi_int;
typedef double casadi_real;
%(decls)s
#ifdef __cplusplus
}
#endif
typedef struct {
  const char* name;
  int (*f)(const casadi_real**, casadi_real**, casadi_int*, casadi_real*, int);
  int (*work)(casadi_int*, casadi_int*, casadi_int*, casadi_int*);
  casadi_int (*n_in)(void); casadi_int (*n_out)(void);
  const casadi_int* (*sp_in)(casadi_int); const casadi_int* (*sp_out)(casadi_int);
  const char* (*name_in)(casadi_int); const char* (*name_out)(casadi_int);
  int (*checkout)(void); void (*release)(int);
} fn_t;
static fn_t T[] = { %(table)s };
static casadi_int nnz(const casadi_int* sp) {
  casadi_int nr = sp[0], nc = sp[1];
  if (sp[2] == 1) return nr * nc; /* dense flag */
  return sp[2 + nc];
}
int main(int argc, char** argv) {
  int nf = (int)(sizeof(T) / sizeof(T[0]));
  if (argc > 1 && !strcmp(argv[1], "--describe")) {
    for (int k = 0; k < nf; k++) {
      casadi_int sa, sr, si, sw; T[k].work(&sa, &sr, &si, &sw);
      printf("%%s %%lld %%lld work %%lld %%lld %%lld %%lld", T[k].name, T[k].n_in(), T[k].n_out(), sa, sr, si, sw);
      for (casadi_int i = 0; i < T[k].n_in(); i++) { const casadi_int* s = T[k].sp_in(i); printf(" i:%%s:%%lldx%%lld:%%lld", T[k].name_in(i), s[0], s[1], nnz(s)); }
      for (casadi_int i = 0; i < T[k].n_out(); i++) { const casadi_int* s = T[k].sp_out(i); printf(" o:%%s:%%lldx%%lld:%%lld", T[k].name_out(i), s[0], s[1], nnz(s)); }
      printf("\n");
    }
    return 0;
  }
  int k;
  while (fread(&k, sizeof(int), 1, stdin) == 1) {
    if (k < 0 || k >= nf) return 5;
    fn_t* t = &T[k];
    casadi_int sa, sr, si, sw; t->work(&sa, &sr, &si, &sw);
    casadi_int ni = t->n_in(), no = t->n_out();
    /* exactly-sized work arrays: an out-of-bounds access lands in a red zone */
    const casadi_real** arg = (const casadi_real**)malloc(sizeof(*arg) * (size_t)(sa > 0 ? sa : 1));
    casadi_real** res = (casadi_real**)malloc(sizeof(*res) * (size_t)(sr > 0 ? sr : 1));
    casadi_int* iw = (casadi_int*)malloc(sizeof(*iw) * (size_t)(si > 0 ? si : 1));
    casadi_real* w = (casadi_real*)malloc(sizeof(*w) * (size_t)(sw > 0 ? sw : 1));
    casadi_real** in = (casadi_real**)malloc(sizeof(*in) * (size_t)(ni > 0 ? ni : 1));
    casadi_real** ou = (casadi_real**)malloc(sizeof(*ou) * (size_t)(no > 0 ? no : 1));
    if (sa < ni || sr < no) return 6;
    for (casadi_int i = 0; i < ni; i++) {
      casadi_int n = nnz(t->sp_in(i));
      in[i] = (casadi_real*)malloc(sizeof(casadi_real) * (size_t)(n > 0 ? n : 1));
      if (n && fread(in[i], sizeof(casadi_real), (size_t)n, stdin) != (size_t)n) return 3;
      arg[i] = in[i];
    }
    for (casadi_int i = 0; i < no; i++) {
      casadi_int n = nnz(t->sp_out(i));
      ou[i] = (casadi_real*)malloc(sizeof(casadi_real) * (size_t)(n > 0 ? n : 1));
      res[i] = ou[i];
    }
    int mem = t->checkout ? t->checkout() : 0;
    int rc = t->f(arg, res, iw, w, mem);
    if (t->release) t->release(mem);
    if (rc) return 4;
    for (casadi_int i = 0; i < no; i++) { casadi_int n = nnz(t->sp_out(i)); fwrite(ou[i], sizeof(casadi_real), (size_t)n, stdout); free(ou[i]); }
    for (casadi_int i = 0; i < ni; i++) free(in[i]);
    free(in); free(ou); free((void*)arg); free(res); free(iw); free(w);
  }
  return 0;
}
'''


def driver_source(names, with_mem=False):
    decls, rows = [], []
    for n in names:
        decls.append("int %s(const casadi_real** arg, casadi_real** res, casadi_int* iw, casadi_real* w, int mem);" % n)
        decls.append("int %s_work(casadi_int*, casadi_int*, casadi_int*, casadi_int*);" % n)
        decls.append("casadi_int %s_n_in(void); casadi_int %s_n_out(void);" % (n, n))
        decls.append("const casadi_int* %s_sparsity_in(casadi_int); const casadi_int* %s_sparsity_out(casadi_int);" % (n, n))
        decls.append("const char* %s_name_in(casadi_int); const char* %s_name_out(casadi_int);" % (n, n))
        if with_mem:
            decls.append("int %s_checkout(void); void %s_release(int);" % (n, n))
        rows.append('{"%s",%s,%s_work,%s_n_in,%s_n_out,%s_sparsity_in,%s_sparsity_out,%s_name_in,%s_name_out,%s,%s}' % (
            n, n, n, n, n, n, n, n, n, (n + "_checkout") if with_mem else "0", (n + "_release") if with_mem else "0"))
    return DRIVER_TMPL % {"decls": "\n".join(decls), "table": ",\n".join(rows)}


SAN_FLAGS = ["-fsanitize=address,undefined", "-fno-sanitize-recover=all", "-fno-omit-frame-pointer", "-O1", "-g", "-ffp-contract=off"]
SAN_ENV = {"ASAN_OPTIONS": "halt_on_error=1:abort_on_error=1:detect_leaks=1:allocator_may_return_null=0",
           "UBSAN_OPTIONS": "print_stacktrace=1:halt_on_error=1"}


def build(src, names, out, mode="asan", extra=(), with_mem=False, cxx=False, timeout=900):
    """-> (ok, log)"""
    d = os.path.dirname(out)
    drv = os.path.join(d, os.path.basename(out) + "_driver." + ("cpp" if cxx else "c"))
    with open(drv, "w") as f:
        f.write(driver_source(names, with_mem))
    if mode == "asan":
        cc = ["clang++" if cxx else "clang"] + SAN_FLAGS
    else:
        cc = ["g++" if cxx else "gcc", "-O0", "-g", "-ffp-contract=off"]
    cmd = cc + list(extra) + ["-o", out, drv, src, "-lm"]
    r = subprocess.run(cmd, capture_output=True, text=True, timeout=timeout)
    return r.returncode == 0, (r.stderr or "")[-2000:]


def describe(exe):
    r = subprocess.run([exe, "--describe"], capture_output=True, text=True, timeout=60, env={**os.environ, **SAN_ENV})
    if r.returncode != 0:
        return None, r.stderr[-1500:]
    out = {}
    for line in r.stdout.strip().splitlines():
        p = line.split()
        name, n_in, n_out = p[0], int(p[1]), int(p[2])
        work = tuple(int(x) for x in p[4:8])
        ins, outs = [], []
        for tok in p[8:]:
            kind, nm, dims, nz = tok.split(":")
            r_, c_ = dims.split("x")
            (ins if kind == "i" else outs).append((nm, int(r_), int(c_), int(nz)))
        out[name] = {"n_in": n_in, "n_out": n_out, "work": work, "in": ins, "out": outs}
    return out, ""


def run_cases(exe, cases, runner=None, timeout=1800):
    """cases: list of (k, [input nonzero arrays]) -> (returncode, stdout bytes, stderr text)"""
    buf = bytearray()
    for k, ins in cases:
        buf += struct.pack("i", int(k))
        for v in ins:
            buf += np.asarray(v, dtype="<f8").tobytes()
    cmd = (runner or []) + [exe]
    r = subprocess.run(cmd, input=bytes(buf), capture_output=True, timeout=timeout, env={**os.environ, **SAN_ENV})
    return r.returncode, r.stdout, r.stderr.decode(errors="replace")[-3000:]
