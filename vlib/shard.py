"""one shard of one check, run as a subprocess: python -m vlib.shard ID tier seed k n out work"""
from __future__ import annotations

import importlib
import json
import os
import sys
import traceback

from . import core


def main():
    pid, tier, seed, k, n, out, work = sys.argv[1:8]
    replay = None
    if "--replay" in sys.argv:
        with open(sys.argv[sys.argv.index("--replay") + 1]) as f:
            replay = json.load(f)
    core.setup_paths()
    reach = core.Reach(core.REPO)
    if os.environ.get("VERIF_NO_REACH") != "1":
        reach.start()
    import cyecca  # noqa

    core.assert_repo()
    mod = importlib.import_module("vlib.props." + pid.lower())
    ctx = core.Ctx(pid, tier, int(seed), int(k), int(n), work)
    ctx.replay = replay
    try:
        mod.run(ctx)
    except core.Inconclusive as e:
        ctx.inconclusive.append(str(e))
    except Exception:
        traceback.print_exc()
        ctx.inconclusive.append("harness exception: " + traceback.format_exc()[-800:])
    reach.stop()
    ctx.dump(out, reach.summary())


if __name__ == "__main__":
    main()
