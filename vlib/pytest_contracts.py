"""pytest plugin: run the repository's own tests with the icontract post-conditions installed on the real
group methods (loaded with -p vlib.pytest_contracts); what the contracts observed is written to the
file named by VERIF_CONTRACT_OUT"""
import json
import os


def pytest_sessionstart(session):
    from vlib import contracts
    contracts.install()


def pytest_sessionfinish(session, exitstatus):
    from vlib import contracts
    out = os.environ.get("VERIF_CONTRACT_OUT")
    viol = [(n, c, json.loads(json.dumps(d, default=str))) for n, c, d in contracts.drain()]
    if out:
        with open(out, "w") as f:
            json.dump({"stats": contracts.STATS, "violations": viol, "exitstatus": int(exitstatus)}, f)
    contracts.uninstall()
