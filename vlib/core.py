"""Core of the runtime-monitoring framework: shard context, recording of what monitors
observed, three-valued verdicts.  Nothing in here knows about a particular property."""
from __future__ import annotations

import hashlib
import json
import math
import os
import sys
import time

import numpy as np

VERIF = os.path.dirname(os.path.dirname(os.path.abspath(__file__)))
REPO = os.environ.get("CYECCA_VERIF_REPO", "/repo")
DEPS = os.path.join(VERIF, ".deps")

MAX_WITNESS_PER_KEY = 3
MAX_SAMPLES = 6


def setup_paths():
    """code under test always comes from REPO's working tree"""
    for p in (DEPS, REPO):
        if p in sys.path:
            sys.path.remove(p)
    sys.path.insert(0, DEPS)
    sys.path.insert(0, REPO)


def assert_repo():
    import cyecca

    f = os.path.realpath(cyecca.__file__)
    root = os.path.realpath(REPO)
    if not f.startswith(root + os.sep):
        raise RuntimeError("cyecca imported from %s, expected under %s" % (f, root))
    return f


def fhex(x):
    """float -> exact hex string (replayable), arrays recursively"""
    if isinstance(x, (list, tuple)):
        return [fhex(v) for v in x]
    if isinstance(x, np.ndarray):
        return [fhex(v) for v in x.tolist()]
    if isinstance(x, (float, np.floating)):
        return float(x).hex()
    if isinstance(x, (int, np.integer)):
        return int(x)
    return x


def jsonable(x):
    if isinstance(x, dict):
        return {str(k): jsonable(v) for k, v in x.items()}
    if isinstance(x, (list, tuple)):
        return [jsonable(v) for v in x]
    if isinstance(x, np.ndarray):
        return jsonable(x.tolist())
    if isinstance(x, (np.floating, float)):
        v = float(x)
        if math.isnan(v):
            return "nan"
        if math.isinf(v):
            return "inf" if v > 0 else "-inf"
        return v
    if isinstance(x, (np.integer,)):
        return int(x)
    if isinstance(x, (np.bool_,)):
        return bool(x)
    if isinstance(x, (str, int, bool)) or x is None:
        return x
    return repr(x)


_MULT = None


def row_hashes(X):
    """64-bit hash per row of a float array (for counting distinct cases)"""
    global _MULT
    X = np.ascontiguousarray(np.atleast_2d(np.asarray(X, dtype=np.float64)))
    n = X.shape[1]
    if _MULT is None or len(_MULT) < n:
        r = np.random.default_rng(12345)
        _MULT = r.integers(1, 2**63 - 1, size=max(n, 64), dtype=np.uint64) | np.uint64(1)
    U = X.view(np.uint64)
    with np.errstate(over="ignore"):
        h = (U * _MULT[:n]).sum(axis=1, dtype=np.uint64)
        h ^= h >> np.uint64(29)
        h *= np.uint64(0xBF58476D1CE4E5B9)
        h ^= h >> np.uint64(32)
    return h


class Inconclusive(Exception):
    pass


class Ctx:
    """what one shard of one check observed"""

    def __init__(self, prop, tier, seed, shard, nshards, workdir):
        self.prop = prop
        self.tier = tier
        self.seed = int(seed)
        self.shard = shard
        self.nshards = nshards
        self.workdir = workdir
        self.t0 = time.time()
        self.tallies = {}
        self.residuals = {}
        self.violations = {}  # key -> {count, witnesses[]}
        self.cells = {}  # name -> set of signatures
        self.counters = {}
        self.samples = []
        self.hashes = []
        self.notes = {}
        self.skipped = {}
        self.inconclusive = []
        self.required = {}

    @property
    def quick(self):
        return self.tier == "quick"

    def rng(self, name=""):
        h = int.from_bytes(hashlib.sha256(name.encode()).digest()[:4], "little")
        pnum = int("".join(c for c in self.prop if c.isdigit()) or 0)
        return np.random.default_rng([self.seed, pnum, self.shard, h])

    # ---- recording -------------------------------------------------------------------
    def tally(self, sub, n=1):
        self.tallies[sub] = self.tallies.get(sub, 0) + int(n)

    def count(self, name, n=1):
        self.counters[name] = self.counters.get(name, 0) + int(n)

    def skip(self, reason, n=1):
        self.skipped[reason] = self.skipped.get(reason, 0) + int(n)

    def cell(self, name, sig):
        self.cells.setdefault(name, set()).add(str(sig))

    def cells_from(self, name, P):
        """P: (N, k) array of predicate truth values -> record distinct signatures"""
        P = np.atleast_2d(np.asarray(P))
        if P.size == 0:
            return
        u = np.unique((P != 0).astype(np.uint8), axis=0)
        s = self.cells.setdefault(name, set())
        for row in u:
            s.add("".join("1" if b else "0" for b in row))

    def sample(self, obj, force=False):
        if force or len(self.samples) < MAX_SAMPLES:
            self.samples.append(jsonable(obj))

    def distinct(self, X, mask=None):
        X = np.atleast_2d(np.asarray(X, dtype=np.float64))
        if mask is not None:
            X = X[np.asarray(mask, dtype=bool)]
        if len(X):
            self.hashes.append(row_hashes(X))

    def note(self, k, v):
        self.notes[k] = jsonable(v)

    def require(self, name, why=""):
        """declare a counter/tally that must be non-zero for a 'held' verdict"""
        self.required[name] = why

    def residual(self, sub, value, case=None):
        value = float(value)
        cur = self.residuals.get(sub)
        if cur is None or (value > cur["worst"]) or math.isnan(value):
            self.residuals[sub] = {"worst": value, "case": jsonable(case)}

    def violation(self, sub, site, detail, cell=None, key=None):
        """record a refuting observation.  key identifies the *mechanism* (sub-check, site,
        optional branch-cell label) -- never random values."""
        if key is None:
            key = "%s:%s" % (sub, site) + (":%s" % cell if cell else "")
        v = self.violations.setdefault(key, {"count": 0, "witnesses": [], "sub": sub, "site": site})
        v["count"] += 1
        if len(v["witnesses"]) < MAX_WITNESS_PER_KEY:
            d = jsonable(detail)
            v["witnesses"].append(d)
        return key

    def check_array(self, sub, site, err, tol, inputs=None, cell=None, cells=None, extra=None):
        """err: (N,) residuals, tol scalar or (N,).  NaN counts as violation.
        inputs: dict name -> (N, ...) arrays, the case written into the witness.
        cells: optional (N,) array of labels that refine the mechanism key."""
        err = np.atleast_1d(np.asarray(err, dtype=np.float64))
        n = len(err)
        self.tally(sub + ":" + site, n)
        if n == 0:
            return 0
        tol_a = np.broadcast_to(np.asarray(tol, dtype=np.float64), err.shape)
        bad = ~(err <= tol_a)
        fin = np.where(np.isnan(err), np.inf, err)
        iw = int(np.argmax(fin))
        case = None
        if inputs is not None:
            case = {k: np.asarray(v)[iw] for k, v in inputs.items()}
        with np.errstate(divide="ignore", invalid="ignore"):
            ratio = np.where(tol_a > 0, fin / np.where(tol_a > 0, tol_a, 1), np.where(fin > 0, np.inf, 0.0))
        iw = int(np.argmax(ratio))
        if inputs is not None:
            case = {k: np.asarray(v)[iw] for k, v in inputs.items()}
        if case is not None:
            case = dict(case)
            case["_abs_error"] = float(fin[iw])
            case["_tol"] = float(tol_a[iw])
        # recorded residual is error/tolerance (>= 1 means violated), so margins are visible
        self.residual(sub + ":" + site, ratio[iw] if np.isfinite(ratio[iw]) else float("inf"), case)
        nb = int(bad.sum())
        if nb:
            idx = np.nonzero(bad)[0]
            # witnesses: worst few per (cell) key
            order = idx[np.argsort(-fin[idx])]
            seen = {}
            for i in order:
                c = cell if cells is None else str(np.asarray(cells)[i])
                k = seen.get(c, 0)
                if k >= MAX_WITNESS_PER_KEY:
                    continue
                seen[c] = k + 1
                det = {"error": float(err[i]), "tol": float(tol_a[i])}
                if inputs is not None:
                    det["inputs"] = {k2: jsonable(np.asarray(v)[i]) for k2, v in inputs.items()}
                    det["inputs_hex"] = {k2: fhex(np.asarray(v)[i]) for k2, v in inputs.items()}
                if extra is not None:
                    det["extra"] = {k2: jsonable(np.asarray(v)[i]) for k2, v in extra.items()}
                self.violation(sub, site, det, cell=c)
            # counts per key
            if cells is None:
                key = "%s:%s" % (sub, site) + (":%s" % cell if cell else "")
                self.violations[key]["count"] += nb - min(nb, MAX_WITNESS_PER_KEY)
            else:
                cs = np.asarray(cells)[idx]
                for c in np.unique(cs):
                    key = "%s:%s:%s" % (sub, site, c)
                    if key in self.violations:
                        m = int((cs == c).sum())
                        self.violations[key]["count"] += m - min(m, MAX_WITNESS_PER_KEY)
        return nb

    def check(self, sub, site, ok, detail=None, cell=None):
        self.tally(sub + ":" + site)
        if not ok:
            self.violation(sub, site, detail or {}, cell=cell)
        return bool(ok)

    # ---- output ----------------------------------------------------------------------
    def dump(self, path, reach=None):
        hs = np.unique(np.concatenate(self.hashes)) if self.hashes else np.zeros(0, np.uint64)
        np.save(path + ".hashes.npy", hs)
        out = {
            "shard": self.shard,
            "tallies": self.tallies,
            "residuals": self.residuals,
            "violations": self.violations,
            "cells": {k: sorted(v) for k, v in self.cells.items()},
            "counters": self.counters,
            "samples": self.samples,
            "notes": self.notes,
            "skipped": self.skipped,
            "inconclusive": self.inconclusive,
            "required": self.required,
            "reach": reach or {},
            "n_hashes": int(len(hs)),
            "wall_s": time.time() - self.t0,
        }
        with open(path, "w") as f:
            json.dump(jsonable(out), f)


# ---- reach counters (sys.monitoring) ---------------------------------------------------
class Reach:
    TOOL = 3

    def __init__(self, root):
        self.root = os.path.realpath(root) + os.sep
        self.counts = {}
        self.on = False

    def start(self):
        mon = sys.monitoring
        try:
            mon.use_tool_id(self.TOOL, "cyecca-verif-reach")
        except ValueError:
            return
        root = self.root
        counts = self.counts
        DIS = mon.DISABLE

        def cb(code, off):
            fn = code.co_filename
            if not fn.startswith(root):
                return DIS
            k = fn[len(root):] + "::" + code.co_qualname
            counts[k] = counts.get(k, 0) + 1

        mon.register_callback(self.TOOL, mon.events.PY_START, cb)
        mon.set_events(self.TOOL, mon.events.PY_START)
        self.on = True

    def stop(self):
        if self.on:
            sys.monitoring.set_events(self.TOOL, 0)
            sys.monitoring.free_tool_id(self.TOOL)
            self.on = False

    def summary(self):
        # keep only cyecca package files
        return {k: v for k, v in self.counts.items() if k.startswith("cyecca/")}
