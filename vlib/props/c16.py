"""C16 -- the quadrotor model obeys rigid-body physics invariants."""
from __future__ import annotations

import numpy as np
import casadi as ca

from .. import oracles as O
from ..caseval import Ev
from ..groups import SO3S
from .lie_common import lib_call

PI = np.pi
SHARDS = {"quick": 8, "thorough": 16}
REQUIRED_REACH = ['derive_model']
RULE = ("random states (any attitude with both quaternion signs, body velocity/rates up to ~10, rotor speeds 0..2000, height > 0), "
        "rotor commands, and random physically meaningful parameter sets (mass, inertia, per-rotor arm length/angle/spin direction, "
        "thrust/moment/drag/damping coefficients, time constants, gravity) addressed by name through the model's own index maps; "
        "oracle = Newton-Euler rebuilt from the rotor geometry; non-trivial = non-zero rotor speeds and body rates; distinct = hashed (x,u,p)")
ASSUMPTIONS = ["states above ground (z > 0): the ground-contact spring is not part of the statement",
               "numpy oracle"]


def get_model(ctx):
    from cyecca.models import quadrotor
    return lib_call(ctx, "derive", "quadrotor", quadrotor.derive_model, not_implemented_ok=False)


def rand_params(model, rng, N, symmetric=False):
    pi = model["p_index"]
    P = np.zeros((N, len(pi)))

    def setp(name, val):
        P[:, pi[name]] = val

    setp("tau_up", O.loguniform(rng, 5e-3, 0.2, N))
    setp("tau_down", O.loguniform(rng, 5e-3, 0.4, N))
    L = O.loguniform(rng, 0.05, 1.0, N)
    rot = rng.uniform(-PI, PI, N)
    base = np.array([-PI / 4, 3 * PI / 4, PI / 4, -3 * PI / 4])
    dirs = np.array([1, 1, -1, -1.0])
    for i in range(4):
        if symmetric:
            setp("l_motor_%d" % i, L)
            setp("theta_motor_%d" % i, base[i] + rot)
            setp("dir_motor_%d" % i, dirs[i] * np.ones(N))
        else:
            setp("l_motor_%d" % i, O.loguniform(rng, 0.05, 1.0, N))
            setp("theta_motor_%d" % i, rng.uniform(-PI, PI, N))
            setp("dir_motor_%d" % i, rng.choice([-1.0, 1.0], N))
    setp("CT", O.loguniform(rng, 1e-7, 1e-4, N))
    setp("CM", O.loguniform(rng, 1e-3, 0.1, N))
    for n in ("Cl_p", "Cm_q", "Cn_r"):
        setp(n, -rng.uniform(0, 0.5, N) * rng.choice([0, 1], N))
    setp("CD0", rng.uniform(0, 1.0, N) * rng.choice([0, 1], N))
    setp("S", O.loguniform(rng, 1e-2, 1, N))
    setp("rho", rng.uniform(0.9, 1.3, N))
    setp("g", rng.choice([9.8, 9.81, 3.7, 1.62], N))
    setp("m", O.loguniform(rng, 0.2, 20, N))
    for n in ("Jx", "Jy", "Jz"):
        setp(n, O.loguniform(rng, 1e-3, 1.0, N))
    for k, i in pi.items():
        if k.startswith("noise_power"):
            P[:, i] = rng.uniform(0, 1e-3, N)
    return P


def rand_state(model, rng, N):
    xi = model["x_index"]
    X = np.zeros((N, len(xi)))
    q = SO3S["quat"].rand(rng, N)
    for i in range(4):
        X[:, xi["quaternion_wb_%d" % i]] = q[:, i]
    for i in range(3):
        X[:, xi["position_op_w_%d" % i]] = rng.normal(size=N) * 10
        X[:, xi["velocity_w_p_b_%d" % i]] = rng.normal(size=N) * rng.choice([0.0, 1.0, 10.0], N)
        X[:, xi["omega_wb_b_%d" % i]] = rng.normal(size=N) * rng.choice([0.0, 1.0, 10.0], N)
    X[:, xi["position_op_w_2"]] = O.loguniform(rng, 1e-3, 100, N)  # above ground
    for i in range(4):
        X[:, xi["omega_motor_%d" % i]] = rng.uniform(0, 2000, N) * rng.choice([0, 1, 1, 1], N)
    return X


def cols(model, X, base, n):
    xi = model["x_index"]
    return np.stack([X[:, xi["%s_%d" % (base, i)]] for i in range(n)], axis=1)


def pcol(model, P, name):
    return P[:, model["p_index"][name]]


def run(ctx):
    if ctx.shard == ctx.nshards - 1:
        # the by-name calling convention of the shipped functions this property is about (see vlib/named.py)
        from .. import named
        named.monitor(ctx, ['quadrotor:f', 'quadrotor:g_accel', 'quadrotor:g_gyro', 'quadrotor:g_mag', 'quadrotor:g_gps_pos'], ctx.rng("named"))
        ctx.require("call_by_argument_name", "(by-name calls never evaluated)")
        named.derivation_history(ctx, ['quadrotor'], ctx.rng("named2"))
    model = get_model(ctx)
    if model is None:
        return
    rng = ctx.rng("c16")
    N = 20000 if ctx.quick else 300000
    x, u, p = ca.SX.sym("x", 17), ca.SX.sym("u", 4), ca.SX.sym("p", model["p"].shape[0])
    w3, dt = ca.SX.sym("w", 3), ca.SX.sym("dt")
    ev = Ev("f", [x, u, p, w3, dt], [model["f"](x, u, p), model["g_accel"](x, u, p, w3, dt), model["g_gyro"](x, u, p, w3, dt)])
    xi = model["x_index"]
    ix = lambda base, n: [xi["%s_%d" % (base, i)] for i in range(n)]
    IP, IV, IQ, IW, IM = ix("position_op_w", 3), ix("velocity_w_p_b", 3), ix("quaternion_wb", 4), ix("omega_wb_b", 3), ix("omega_motor", 4)
    Z3 = np.zeros((N, 3))
    one = np.ones(N)

    # ---------------- generic states, random parameters: Newton-Euler from rotor geometry
    P = rand_params(model, rng, N)
    X = rand_state(model, rng, N)
    U = rng.uniform(0, 2000, (N, 4))
    # "all rotor commands": some negative ones too (a reversing ESC, a command below idle): first-order relaxation towards the command as given
    neg = rng.random((N, 4)) < 0.06
    U = np.where(neg, -rng.uniform(0, 800, (N, 4)), U)
    (xd, ya, yg), pr = ev(X, U, P, Z3, one)
    ctx.cells_from("predicates", pr)
    xd, ya, yg = xd[:, :, 0], ya[:, :, 0], yg[:, :, 0]
    q, v, w, om, pos = X[:, IQ], X[:, IV], X[:, IW], X[:, IM], X[:, IP]
    R = O.quat_to_R(q)
    m, g = pcol(model, P, "m"), pcol(model, P, "g")
    J = np.stack([pcol(model, P, "Jx"), pcol(model, P, "Jy"), pcol(model, P, "Jz")], axis=1)
    CT, CM = pcol(model, P, "CT"), pcol(model, P, "CM")
    S, rho, CD0 = pcol(model, P, "S"), pcol(model, P, "rho"), pcol(model, P, "CD0")
    inp = {"x": X, "u": U, "p": P}
    fin = np.isfinite(xd).all(axis=1)
    ctx.check_array("finite", "f", (~fin).astype(float), 0.5, inp)
    # quaternion norm preserved
    qd = xd[:, IQ]
    ctx.check_array("q_dot_orthogonal_to_q", "f", np.abs(np.sum(q * qd, axis=1)), 1e-12 * np.maximum(1, np.linalg.norm(w, axis=1)), inp)
    # attitude kinematics: R' = R [w]x  (exact differential of the quadratic form)
    dR = (O.quat_to_R(q + qd) - O.quat_to_R(q - qd)) / 2
    ctx.check_array("attitude_kinematics", "f", np.abs(dR - R @ O.hat3(w)).max(axis=(1, 2)), 1e-11 * np.maximum(1, np.linalg.norm(w, axis=1)), inp)
    # position kinematics
    ctx.check_array("position_kinematics", "f", np.abs(xd[:, IP] - np.einsum("nij,nj->ni", R, v)).max(axis=1), 1e-11 * np.maximum(1, np.abs(v).max(axis=1)), inp)
    # force: m (v' + w x v) = sum thrust e3 - drag + R^T(-m g e3)
    thrust = CT[:, None] * om**2
    Fz = thrust.sum(axis=1)
    V = np.linalg.norm(v, axis=1)
    wX = np.where((V > 1e-5)[:, None], v / np.where(V > 0, V, 1)[:, None], np.array([1.0, 0, 0]))
    drag = (CD0 * 0.5 * rho * V**2 * S)[:, None] * wX
    F_o = np.stack([0 * Fz, 0 * Fz, Fz], axis=1) - drag + np.einsum("nji,nj->ni", R, np.stack([0 * g, 0 * g, -m * g], axis=1))
    F_m = m[:, None] * (xd[:, IV] + np.cross(w, v))
    scF = np.maximum(1, np.abs(F_o).max(axis=1) + m * np.abs(np.cross(w, v)).max(axis=1))
    ctx.check_array("net_force_from_rotors", "f", np.abs(F_m - F_o).max(axis=1) / scF, 1e-10, inp)
    # moment: J w' + w x J w = sum r_i x F_i - CM dir_i thrust_i e3 + aero damping
    M_o = np.zeros((N, 3))
    Cl = np.stack([pcol(model, P, "Cl_p") * w[:, 0], pcol(model, P, "Cm_q") * w[:, 1], pcol(model, P, "Cn_r") * w[:, 2]], axis=1)
    for i in range(4):
        li, thi, di = pcol(model, P, "l_motor_%d" % i), pcol(model, P, "theta_motor_%d" % i), pcol(model, P, "dir_motor_%d" % i)
        r = li[:, None] * np.stack([np.cos(thi), np.sin(thi), 0 * thi], axis=1)
        Fi = np.stack([0 * Fz, 0 * Fz, thrust[:, i]], axis=1)
        M_o += np.cross(r, Fi) - (CM * di * thrust[:, i])[:, None] * np.array([0, 0, 1.0]) + Cl * (S * li)[:, None]
    M_m = J * xd[:, IW] + np.cross(w, J * w)
    scM = np.maximum(1, np.abs(M_o).max(axis=1) + np.abs(np.cross(w, J * w)).max(axis=1))
    ctx.check_array("net_moment_from_rotors", "f", np.abs(M_m - M_o).max(axis=1) / scM, 1e-10, inp)
    # motors: first order with up/down time constants
    tau = np.where(U - om > 0, pcol(model, P, "tau_up")[:, None], pcol(model, P, "tau_down")[:, None])
    ctx.check_array("motor_first_order", "f", np.abs(xd[:, IM] - (U - om) / tau).max(axis=1) / np.maximum(1, np.abs((U - om) / tau).max(axis=1)), 1e-12, inp)
    # sensors (noise input zero): accelerometer = specific force without gravity, gyro = body rate
    a_o = (np.stack([0 * Fz, 0 * Fz, Fz], axis=1) - drag) / m[:, None]
    ctx.check_array("accelerometer_is_specific_force", "g_accel", np.abs(ya - a_o).max(axis=1) / np.maximum(1, np.abs(a_o).max(axis=1)), 1e-11, inp)
    ctx.check_array("gyro_is_body_rate", "g_gyro", np.abs(yg - w).max(axis=1), 1e-12 * np.maximum(1, np.abs(w).max(axis=1)), inp)
    ctx.distinct(np.concatenate([X, U, P], axis=1), (np.abs(om).max(axis=1) > 0) & (np.abs(w).max(axis=1) > 0))
    ctx.sample({"x": X[3], "u": U[3], "p": P[3]})

    # ---------------- free fall: rotors stopped, no drag -> accelerometer reads zero, body accelerates with gravity
    Xf = X.copy()
    Xf[:, IM] = 0
    Pf = P.copy()
    Pf[:, model["p_index"]["CD0"]] = 0
    (xdf, yaf, _), _ = ev(Xf, np.zeros((N, 4)), Pf, Z3, one)
    ctx.check_array("free_fall_accelerometer_zero", "g_accel", np.abs(yaf[:, :, 0]).max(axis=1), 1e-12, {"x": Xf, "p": Pf})
    acc_w = np.einsum("nij,nj->ni", R, xdf[:, IV, 0] + np.cross(w, v))
    ctx.check_array("free_fall_acceleration_is_gravity", "f", np.abs(acc_w - np.stack([0 * g, 0 * g, -g], axis=1)).max(axis=1), 1e-10 * np.maximum(1, np.abs(np.cross(w, v)).max(axis=1)), {"x": Xf, "p": Pf})

    # ---------------- hover equilibrium on symmetric frames, any yaw, each rotor a quarter of the weight
    Ps = rand_params(model, rng, N, symmetric=True)
    Xh = np.zeros((N, 17))
    yaw = rng.uniform(-PI, PI, N)
    qh = O.axang_to_quat(np.tile([0, 0, 1.0], (N, 1)), yaw) * rng.choice([-1.0, 1.0], (N, 1))
    Xh[:, IQ] = qh
    Xh[:, IP] = rng.normal(size=(N, 3)) * 10
    Xh[:, IP[2]] = O.loguniform(rng, 1e-3, 100, N)
    ms, gs, CTs = pcol(model, Ps, "m"), pcol(model, Ps, "g"), pcol(model, Ps, "CT")
    wh = np.sqrt(ms * gs / (4 * CTs))
    Xh[:, IM] = wh[:, None]
    Uh = np.tile(wh[:, None], (1, 4))
    (xdh, yah, _), _ = ev(Xh, Uh, Ps, Z3, one)
    sc = np.maximum(1, gs)
    ctx.check_array("hover_is_equilibrium", "f", np.abs(xdh[:, :, 0]).max(axis=1) / sc, 1e-10, {"x": Xh, "u": Uh, "p": Ps})
    ctx.check_array("hover_accelerometer_reads_g_up", "g_accel", np.abs(yah[:, :, 0] - np.stack([0 * gs, 0 * gs, gs], axis=1)).max(axis=1) / sc, 1e-10, {"x": Xh, "p": Ps})
    # equal speeds on a symmetric frame -> zero moment (any attitude, zero body rate)
    Xe = rand_state(model, rng, N)
    Xe[:, IW] = 0
    spd = rng.uniform(0, 2000, N)
    Xe[:, IM] = spd[:, None]
    (xde, _, _), _ = ev(Xe, Uh, Ps, Z3, one)
    Js = np.stack([pcol(model, Ps, "Jx"), pcol(model, Ps, "Jy"), pcol(model, Ps, "Jz")], axis=1)
    Mm = Js * xde[:, IW, 0]
    ref = pcol(model, Ps, "CT") * spd**2 * pcol(model, Ps, "l_motor_0")
    ctx.check_array("equal_speeds_zero_moment", "f", np.abs(Mm).max(axis=1) / np.maximum(1, ref), 1e-10, {"x": Xe, "p": Ps})
    ctx.distinct(np.concatenate([Xe, Ps], axis=1), spd > 0)

    # ---------------- equivariance: world yaw alpha + horizontal translation
    al = rng.uniform(-PI, PI, N)
    t = rng.normal(size=(N, 2)) * 100
    Rz = O.Rz(al)
    qz = O.axang_to_quat(np.tile([0, 0, 1.0], (N, 1)), al)
    X2 = X.copy()
    X2[:, IP] = np.einsum("nij,nj->ni", Rz, pos) + np.concatenate([t, np.zeros((N, 1))], axis=1)
    X2[:, IQ] = O.quat_mul(qz, q)
    (xd2, ya2, yg2), _ = ev(X2, U, P, Z3, one)
    xd2 = xd2[:, :, 0]
    exp_ = xd.copy()
    exp_[:, IP] = np.einsum("nij,nj->ni", Rz, xd[:, IP])
    exp_[:, IQ] = O.quat_mul(qz, xd[:, IQ])
    scE = np.maximum(1, np.abs(xd).max(axis=1))
    ctx.check_array("equivariant_under_world_yaw_and_translation", "f", np.abs(xd2 - exp_).max(axis=1) / scE, 1e-10, {"x": X, "u": U, "p": P, "yaw": al, "shift": t})
    ctx.check_array("sensors_invariant_under_world_yaw_and_translation", "g_accel", np.abs(ya2[:, :, 0] - ya).max(axis=1) / np.maximum(1, np.abs(ya).max(axis=1)), 1e-10, {"x": X, "yaw": al})

    # ---------------- motor relaxation along integrated trajectories (histories)
    motor_histories(ctx, model, ev, rng, 300 if ctx.quick else 5000, IM)


def motor_histories(ctx, model, ev, rng, H, IM):
    """RK4-integrate the real f for 3 time constants; |w - cmd| must decrease monotonically and fall to 1/e after tau"""
    P = rand_params(model, rng, H)
    X = rand_state(model, rng, H)
    X[:, IM] = rng.uniform(0, 2000, (H, 4))
    U = rng.uniform(0, 2000, (H, 4))
    U = np.where(rng.random((H, 4)) < 0.06, -rng.uniform(0, 800, (H, 4)), U)
    up = U > X[:, IM]
    tau = np.where(up, pcol(model, P, "tau_up")[:, None], pcol(model, P, "tau_down")[:, None])
    h = (np.minimum(pcol(model, P, "tau_up"), pcol(model, P, "tau_down")) / 40)
    e0 = np.abs(U - X[:, IM])
    steps = 130
    Z3, one = np.zeros((H, 3)), np.ones(H)
    w = X[:, IM].copy()
    prev = e0.copy()
    mono_bad = np.zeros(H)
    tgrid = np.zeros(H)
    at_tau = np.full((H, 4), np.nan)

    def f_motor(wm):
        Xk = X.copy()
        Xk[:, IM] = wm
        (xd, _, _), _ = ev(Xk, U, P, Z3, one)
        return xd[:, IM, 0]

    for k in range(steps):
        k1 = f_motor(w)
        k2 = f_motor(w + h[:, None] / 2 * k1)
        k3 = f_motor(w + h[:, None] / 2 * k2)
        k4 = f_motor(w + h[:, None] * k3)
        w = w + h[:, None] / 6 * (k1 + 2 * k2 + 2 * k3 + k4)
        tgrid = tgrid + h
        e = np.abs(U - w)
        mono_bad = np.maximum(mono_bad, (e - prev).max(axis=1) / np.maximum(1, e0.max(axis=1)))
        prev = e
        hit = np.isnan(at_tau) & (tgrid[:, None] >= tau * (1 - 1e-12))
        # record the error ratio at the first grid time >= tau, corrected analytically to exactly tau
        ratio = e / np.where(e0 > 0, e0, 1) * np.exp((tgrid[:, None] - tau) / tau)
        at_tau = np.where(hit, ratio, at_tau)
    inp = {"x": X, "u": U, "p": P}
    ctx.check_array("motor_error_decreases_monotonically", "f", mono_bad, 1e-12, inp)
    ok = (e0 > 1e-3) & ~np.isnan(at_tau)
    dev = np.where(ok, np.abs(at_tau - np.exp(-1)), 0).max(axis=1)
    ctx.check_array("motor_time_constant", "f", dev, 1e-6, inp)
    ctx.count("motor_history_steps", H * steps)
    ctx.distinct(np.concatenate([X[:, IM], U], axis=1))
