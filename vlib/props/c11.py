"""C11 -- each attitude-estimator step keeps the state valid and the covariance consistent."""
from __future__ import annotations

import numpy as np
import casadi as ca

from .. import oracles as O
from ..caseval import Ev
from ..groups import SO3S, angle_mix
from .lie_common import lib_call

PI = np.pi
SHARDS = {"quick": 12, "thorough": 16}
REQUIRED_REACH = ['initialize', 'predict', 'correct_mag', 'correct_accel']
RULE = ("initialize: gravity/magnetic measurements synthesised by the oracle from random true attitudes (0..pi), declination +-0.5, "
        "inclination +-1.3, scaled/zeroed/aligned to visit every error code and the 10-degree gate from both sides; predict: MRP in/on "
        "the unit ball, bias <= 0.2, gyro up to 50 rad/s, dt 1-20 ms, random well-conditioned lower-triangular W; corrections: "
        "consistent, noisy and wrong-magnitude (x0, x0.5, x2) accelerations, magnetic vectors incl. near-vertical, small and large "
        "roll/pitch uncertainty (each gate from both sides); non-trivial = non-identity attitude; distinct = hashed input tuples")
ASSUMPTIONS = ["the real CasADi functions from algorithms.eqs()['mrp'] are called through thin recording wrappers",
               "fourth-order accuracy restated as error <= 0.02 theta^5 + 1e-11 per step and error ratio ~32 under step halving"]


def get_eqs(ctx):
    from cyecca.estimate.attitude import algorithms
    return lib_call(ctx, "derive", "algorithms.eqs", lambda: algorithms.eqs()["mrp"], not_implemented_ok=False)


def rand_W(rng, N, big_tilt=None):
    """well-conditioned lower-triangular covariance factors (6x6)"""
    W = np.zeros((N, 6, 6))
    d_att = O.loguniform(rng, 1e-3, 1.0, (N, 3))
    if big_tilt is not None:
        # roll/pitch uncertainty gate of the magnetometer correction is at |diag(W)[0:2]| = 0.1
        d_att[:, :2] = np.where(big_tilt[:, None], O.loguniform(rng, 0.1, 1.0, (N, 2)), O.loguniform(rng, 1e-3, 0.069, (N, 2)))
    d_b = O.loguniform(rng, 1e-4, 0.1, (N, 3))
    W[:, np.arange(3), np.arange(3)] = d_att
    W[:, np.arange(3, 6), np.arange(3, 6)] = d_b
    L = np.tril(rng.normal(size=(N, 6, 6)), -1) * rng.choice([0.0, 0.1, 0.3], N)[:, None, None]
    dm = np.minimum(np.abs(W[:, np.arange(6), np.arange(6)])[:, :, None], np.abs(W[:, np.arange(6), np.arange(6)])[:, None, :])
    W = W + L * dm
    # long-converged filters: the whole factor 1e-6..1e-1 of the above (every standard deviation far below any absolute
    # constant a step function might compare with); not for the rows that aim above the 0.1 roll/pitch gate
    sc = np.where(rng.random(N) < 0.25, O.loguniform(rng, 1e-6, 1e-1, N), 1.0)
    if big_tilt is not None:
        sc = np.where(big_tilt, 1.0, sc)
    W = W * sc[:, None, None]
    return W


def B_n(decl, incl, strength=1.0):
    return strength[:, None] * np.einsum("nij,j->ni", O.Rz(decl) @ O.Ry(-incl), np.array([1.0, 0, 0]))


def run(ctx):
    if ctx.shard == ctx.nshards - 1:
        # the by-name calling convention of the shipped functions this property is about (see vlib/named.py)
        from .. import named
        named.monitor(ctx, ['attitude.mrp:init', 'attitude.mrp:predict', 'attitude.mrp:correct_accel', 'attitude.mrp:correct_mag', 'attitude.mrp:get_state'], ctx.rng("named"))
        ctx.require("call_by_argument_name", "(by-name calls never evaluated)")
        named.derivation_history(ctx, ['attitude.mrp'], ctx.rng("named2"))
    eqs = get_eqs(ctx)
    if eqs is None:
        return
    rng = ctx.rng("c11")
    N = 6000 if ctx.quick else 120000
    k = ctx.shard % 4
    for _round in range(1 if ctx.quick else 4):
        _c11_round(ctx, eqs, ctx.rng("c11:%d" % _round), N, k)


def _c11_round(ctx, eqs, rng, N, k):
    if k == 0:
        initialize(ctx, eqs, rng, N * 3)
    elif k == 1:
        predict(ctx, eqs, rng, N)
    elif k == 2:
        correct_accel(ctx, eqs, rng, N)
    else:
        correct_mag(ctx, eqs, rng, N)


def initialize(ctx, eqs, rng, N):
    f = eqs["initialize"]
    g_b, B_b, d = ca.SX.sym("g", 3), ca.SX.sym("B", 3), ca.SX.sym("d")
    ev = Ev("init", [g_b, B_b, d], list(f(g_b, B_b, d)))
    axis, th = O.random_axes(rng, N), angle_mix(rng, N, PI)
    R = O.rodrigues(axis * th[:, None])  # C_nb: body -> nav
    decl = rng.uniform(-0.5, 0.5, N)
    incl = rng.uniform(-1.3, 1.3, N)
    # 10-degree gate between vertical and field: incl = +-(pi/2 - angle)
    k = N // 6
    ang = np.deg2rad(rng.choice([9.0, 9.99, 9.9999, 10.0001, 10.01, 11.0, 1.0, 0.0], k))
    incl[:k] = rng.choice([-1.0, 1.0], k) * (PI / 2 - ang)
    gmag = np.where(rng.random(N) < 0.75, rng.uniform(8.85, 10.75, N), rng.choice([0.0, 4.9, 8.7999, 8.8001, 10.7999, 10.8001, 19.6, 1e3], N))
    bstr = np.where(rng.random(N) < 0.85, O.loguniform(rng, 1e-3, 10, N), 0.0)
    gb = np.einsum("nji,nj->ni", R, np.stack([0 * gmag, 0 * gmag, -gmag], axis=1))
    Bb = np.einsum("nji,nj->ni", R, B_n(decl, incl, bstr))
    (x0, code), pr = ev(gb, Bb, decl)
    ctx.cells_from("predicates:initialize", pr)
    x0, code = x0[:, :, 0], code[:, 0, 0]
    inp = {"g_b": gb, "B_b": Bb, "decl": decl}
    for c in np.unique(code):
        ctx.cell("init_codes", str(c))
    fin = np.isfinite(x0).all(axis=1) & np.isfinite(code)
    ctx.check_array("never_nan", "initialize", (~fin).astype(float), 0.5, inp)
    acc = fin & (code == 0)
    err = np.abs(O.mrp_to_R(x0[:, :3]) - R).max(axis=(1, 2))
    # conditioning: the horizontal field direction is resolved with sin(angle between field and vertical)
    s = np.abs(np.cos(incl))
    ctx.check_array("accepted_attitude_is_truth", "initialize", err[acc], 1e-9 / np.maximum(s[acc], 0.1), {k_: v[acc] for k_, v in inp.items()})
    ctx.check_array("accepted_bias_zero_and_mrp_in_ball", "initialize", np.maximum(np.abs(x0[acc, 3:]).max(axis=1), np.maximum(0, np.linalg.norm(x0[acc, :3], axis=1) - 1)), 1e-12, {k_: v[acc] for k_, v in inp.items()})
    # the error code itself: expected from the oracle, away from the gates
    vert_angle = np.abs(PI / 2 - np.abs(incl))
    exp_code = np.where(np.abs(gmag - 9.8) > 1, 1, np.where(bstr <= 0, 2, np.where(vert_angle < np.deg2rad(10), 3, 0)))
    sure = (np.abs(np.abs(gmag - 9.8) - 1) > 1e-6) & ((np.abs(vert_angle - np.deg2rad(10)) > 1e-6) | (exp_code < 3) & (exp_code > 0))
    ctx.check_array("error_code_as_documented", "initialize", (code != exp_code).astype(float)[sure], 0.5, {k_: v[sure] for k_, v in inp.items()}, extra={"code": code[sure], "expected": exp_code[sure]})
    ctx.distinct(np.concatenate([gb, Bb, decl[:, None]], axis=1), th > 1e-6)
    ctx.count("init_accepted", int(acc.sum()))
    ctx.require("init_accepted", "(no accepted initialisation observed)")
    ctx.sample({"function": "initialize", "g_b": gb[0], "B_b": Bb[0], "decl": decl[0], "x0": x0[0], "code": code[0]})


def states(rng, N):
    so3 = SO3S["mrp"]
    r = so3.rand(rng, N, canonical=True)
    k = N // 10
    r[:k] = O.random_axes(rng, k) * rng.choice([1.0, 1 - 1e-12, 0.999, 1e-9], k)[:, None]
    b = rng.uniform(-0.2, 0.2, (N, 3))
    return np.concatenate([r, b], axis=1)


def predict(ctx, eqs, rng, N):
    f = eqs["predict"]
    s = [ca.SX.sym(n, *k) for n, k in (("t", (1,)), ("x", (6,)), ("W", (6, 6)), ("om", (3,)), ("sg", (1,)), ("sn", (1,)), ("dt", (1,)))]
    outs = list(f(*s))
    ev = Ev("pred", s, outs)
    ctx.check("W1_structurally_lower_triangular", "predict", bool(f.sparsity_out(1).is_tril()), {"sparsity": str(f.sparsity_out(1))})
    x = states(rng, N)
    W = rand_W(rng, N)
    om = O.random_axes(rng, N) * O.loguniform(rng, 1e-3, 50, N)[:, None]
    om[: N // 20] = 0.0
    # slow rotation: a gyro reading that almost cancels the bias estimate (corrected rate 1e-7 .. 2e-3 rad/s) still rotates the attitude
    ks = N // 10
    om[N // 20: N // 20 + ks] = x[N // 20: N // 20 + ks, 3:] + O.random_axes(rng, ks) * O.loguniform(rng, 1e-7, 2e-3, ks)[:, None]
    dt = rng.uniform(1e-3, 20e-3, N)
    t = rng.uniform(0, 100, N)
    sg, sn = O.loguniform(rng, 1e-4, 1e-2, N), O.loguniform(rng, 1e-6, 1e-4, N)
    (x1, W1), pr = ev(t, x, W, om, sg, sn, dt)
    ctx.cells_from("predicates:predict", pr)
    x1 = x1[:, :, 0]
    inp = {"x": x, "omega_m": om, "dt": dt, "W": W.reshape(N, -1)}
    fin = np.isfinite(x1).all(axis=1) & np.isfinite(W1).all(axis=(1, 2))
    ctx.check_array("finite", "predict", (~fin).astype(float), 0.5, inp)
    ctx.check_array("mrp_in_unit_ball", "predict", np.maximum(0, np.linalg.norm(x1[:, :3], axis=1) - 1), 1e-12, inp)
    ctx.check_array("bias_unchanged", "predict", np.abs(x1[:, 3:] - x[:, 3:]).max(axis=1), 1e-15, inp)
    ctx.check_array("W1_lower_triangular", "predict", np.abs(np.triu(W1, 1)).max(axis=(1, 2)), 0.0, inp)
    w = om - x[:, 3:]
    th = np.linalg.norm(w, axis=1) * dt
    Rref = O.mrp_to_R(x[:, :3]) @ O.rodrigues(w * dt[:, None])
    err = np.abs(O.mrp_to_R(x1[:, :3]) - Rref).max(axis=(1, 2))
    ctx.check_array("attitude_fourth_order_accurate", "predict", err, 0.02 * th**5 + 1e-11, inp)
    # order monitor: one step of h vs one step of h/2 (each against its own exact flow): ratio ~ 2^5
    sel = (th > 0.2) & (th < 0.9)
    if sel.sum() > 20:
        (xh, _), _ = ev(t[sel], x[sel], W[sel], om[sel], sg[sel], sn[sel], dt[sel] / 2)
        Rh = O.mrp_to_R(x[sel, :3]) @ O.rodrigues(w[sel] * dt[sel, None] / 2)
        eh = np.abs(O.mrp_to_R(xh[:, :3, 0]) - Rh).max(axis=(1, 2))
        ratio = err[sel] / np.maximum(eh, 1e-300)
        med = float(np.median(ratio))
        ctx.check("attitude_error_ratio_under_halving", "predict", 20 <= med <= 50, {"median_ratio": med, "n": int(sel.sum())})
        ctx.note("predict_halving_ratio_median", med)
    # covariance factor: one RK4 step of the square-root Lyapunov equation -> P1 close to the first-order propagation
    ctx.distinct(np.concatenate([x, om, dt[:, None]], axis=1), np.linalg.norm(x[:, :3], axis=1) > 1e-6)
    ctx.sample({"function": "predict", "x": x[0], "omega_m": om[0], "dt": dt[0], "x1": x1[0]})


def _bitsame(a, b):
    return (np.asarray(a).view(np.uint64) == np.asarray(b).view(np.uint64)) | (np.isnan(a) & np.isnan(b))


def post_checks(ctx, site, x, W, x2, W2, code, inp):
    N = len(x)
    fin = np.isfinite(x2).all(axis=1) & np.isfinite(W2).all(axis=(1, 2)) & np.isfinite(code)
    ctx.check_array("finite", site, (~fin).astype(float), 0.5, inp)
    rej = code != 0
    for c in np.unique(code):
        ctx.cell("codes:" + site, str(c))
    # rejected -> bit-for-bit unchanged
    Wl = np.tril(W)
    # exact equality of every value, no tolerance (IEEE == so that the harmless -0.0 -> +0.0 of the selection is not an alarm)
    same = (x2 == x).all(axis=1) & (np.tril(W2) == Wl).all(axis=(1, 2)) & (np.triu(W2, 1) == 0).all(axis=(1, 2))
    ctx.check_array("rejected_returns_state_bit_identical", site, (~same).astype(float)[rej], 0.5, {k: v[rej] for k, v in inp.items()})
    acc = (~rej) & fin
    P, P2 = Wl @ np.swapaxes(Wl, 1, 2), W2 @ np.swapaxes(W2, 1, 2)
    D = P2 - P
    lam = np.array([np.linalg.eigvalsh((D[i] + D[i].T) / 2).max() if acc[i] else 0.0 for i in range(N)])
    nP = np.abs(P).max(axis=(1, 2))
    ctx.check_array("accepted_never_increases_covariance", site, np.maximum(0, lam)[acc] / nP[acc], 1e-12 * np.maximum(1, np.array([np.linalg.cond(Wl[i]) for i in np.nonzero(acc)[0]]) * 1e-2), {k: v[acc] for k, v in inp.items()})
    ctx.check_array("accepted_W_lower_triangular", site, np.abs(np.triu(W2, 1)).max(axis=(1, 2))[acc], 0.0, {k: v[acc] for k, v in inp.items()})
    ctx.count("accepted:" + site, int(acc.sum()))
    ctx.count("rejected:" + site, int(rej.sum()))
    ctx.require("accepted:" + site)
    ctx.require("rejected:" + site)


def correct_accel(ctx, eqs, rng, N):
    f = eqs["correct_accel"]
    s = [ca.SX.sym(n, *k) for n, k in (("x", (6,)), ("W", (6, 6)), ("y", (3,)), ("g", (1,)), ("om", (3,)), ("sa", (1,)), ("sao", (1,)), ("bc", (1,)))]
    ev = Ev("ca", s, list(f(*s)))
    x = states(rng, N)
    W = rand_W(rng, N)
    g = np.where(rng.random(N) < 0.8, 9.8, rng.uniform(3, 12, N))
    R = O.mrp_to_R(x[:, :3])
    y = np.einsum("nji,nj->ni", R, np.stack([0 * g, 0 * g, -g], axis=1))
    # tilt error so the correction has something to do
    tmag = O.loguniform(rng, 1e-4, 0.5, N)
    gross = rng.random(N) < 0.25
    tmag[gross] = rng.uniform(0.5, PI, int(gross.sum()))  # gross innovations too: the estimate may be anywhere (up to 180 degrees off)
    terr = O.random_axes(rng, N) * tmag[:, None]
    y = np.einsum("nij,nj->ni", O.rodrigues(terr), y)
    y = y + rng.normal(size=(N, 3)) * rng.choice([0.0, 0.035, 0.3], N)[:, None]
    scale = rng.choice([1.0, 1.0, 1.0, 0.0, 0.5, 2.0, (g[0] - 1.0000001) / g[0], (g[0] + 0.9999999) / g[0], (g[0] - 0.999) / g[0]], N)
    # ... and magnitudes anywhere inside the acceptance gate | |y| - g | <= 1, not only at its centre and its edges
    inside = rng.random(N) < 0.3
    scale = np.where(inside, 1.0 + rng.uniform(-0.98, 0.98, N) / g, scale)
    y = y * scale[:, None]
    om = O.random_axes(rng, N) * O.loguniform(rng, 1e-3, 20, N)[:, None]
    sa, sao, bc = O.loguniform(rng, 1e-3, 0.1, N), rng.choice([0.0, 1e-3], N), np.full(N, 9.2)
    outs, pr = ev(x, W, y, g, om, sa, sao, bc)
    ctx.cells_from("predicates:correct_accel", pr)
    x2, W2, code = outs[0][:, :, 0], outs[1], outs[5][:, 0, 0]
    inp = {"x": x, "W": W.reshape(N, -1), "y_b": y, "g": g}
    post_checks(ctx, "correct_accel", x, W, x2, W2, code, inp)
    # documented gate: rejected iff | |y| - g | > 1
    yn = np.linalg.norm(y, axis=1)
    sure = np.abs(np.abs(yn - g) - 1.0) > 1e-6
    ctx.check_array("gate_is_magnitude_within_1_of_g", "correct_accel", ((code != 0) != (np.abs(yn - g) > 1.0)).astype(float)[sure], 0.5, {k: v[sure] for k, v in inp.items()})
    ctx.distinct(np.concatenate([x, y, g[:, None]], axis=1), np.linalg.norm(x[:, :3], axis=1) > 1e-6)
    ctx.sample({"function": "correct_accel", "x": x[0], "y_b": y[0], "code": code[0], "x_accel": x2[0]})


def correct_mag(ctx, eqs, rng, N):
    f = eqs["correct_mag"]
    s = [ca.SX.sym(n, *k) for n, k in (("x", (6,)), ("W", (6, 6)), ("y", (3,)), ("d", (1,)), ("sm", (1,)), ("bc", (1,)))]
    ev = Ev("cm", s, list(f(*s)))
    x = states(rng, N)
    big = rng.random(N) < 0.25
    W = rand_W(rng, N, big_tilt=big)
    # tilt-uncertainty gate |diag(W)[0:2]| = 0.1 from both sides
    k = N // 10
    W[:k, 0, 0] = 0.1 * rng.choice([0.9, 0.999999, 1.000001, 1.1], k) / np.sqrt(2)
    W[:k, 1, 1] = W[:k, 0, 0]
    decl = rng.uniform(-0.5, 0.5, N)
    incl = rng.uniform(-1.2, 1.2, N)
    incl[k:2 * k] = rng.choice([-1.0, 1.0], k) * (PI / 2 - O.loguniform(rng, 1e-4, 0.3, k))  # near-vertical field in nav frame
    # directed: attitudes whose *estimated* horizontal field direction lies within delta of the body z axis -- the
    # "too close to vertical" gate (std_rot/2 > sin(delta)) from both sides, incl. a thin shell just outside it
    kk = N // 6
    nrt = np.einsum("nij,j->ni", O.Rz(decl[2 * k:2 * k + kk]), np.array([1.0, 0, 0]))  # horizontal north rotated by the declination
    z = np.array([0, 0, 1.0])
    vx = np.cross(np.tile(z, (kk, 1)), nrt)
    ang0 = np.arccos(np.clip(nrt @ z, -1, 1))
    R_align = O.rodrigues(vx / np.maximum(np.linalg.norm(vx, axis=1, keepdims=True), 1e-300) * ang0[:, None])  # R_align e3 = north
    delta = rng.choice([0.0, 1e-4, 1e-3, 3e-3, 5e-3, 8e-3, 1.2e-2, 2e-2, 5e-2, 0.2], kk) * rng.uniform(0.8, 1.25, kk)
    tilt_axis = np.stack([np.cos(rng.uniform(0, 2 * PI, kk)), np.sin(rng.uniform(0, 2 * PI, kk)), np.zeros(kk)], axis=1)
    Rn_ = R_align @ O.rodrigues(tilt_axis * delta[:, None]) @ O.Rz(rng.uniform(-PI, PI, kk))
    x[2 * k:2 * k + kk, :3] = SO3S["mrp"].from_R(Rn_, rng, canonical=True)
    R = O.mrp_to_R(x[:, :3])
    y = np.einsum("nji,nj->ni", R, B_n(decl, incl, np.full(N, 0.1)))
    yerr = O.random_axes(rng, N) * O.loguniform(rng, 1e-4, 0.3, N)[:, None]
    y = np.einsum("nij,nj->ni", O.rodrigues(yerr), y) + rng.normal(size=(N, 3)) * rng.choice([0.0, 2.5e-3], N)[:, None]
    # attitudes whose *estimated* field is near vertical in the body frame (the gate uses the estimate)
    sm, bc = O.loguniform(rng, 1e-3, 0.05, N), np.full(N, 6.6)
    outs, pr = ev(x, W, y, decl, sm, bc)
    ctx.cells_from("predicates:correct_mag", pr)
    x2, W2, code = outs[0][:, :, 0], outs[1], outs[5][:, 0, 0]
    inp = {"x": x, "W": W.reshape(N, -1), "y_b": y, "decl": decl, "std_mag": sm}
    post_checks(ctx, "correct_mag", x, W, x2, W2, code, inp)
    ctx.distinct(np.concatenate([x, y, decl[:, None]], axis=1), np.linalg.norm(x[:, :3], axis=1) > 1e-6)
    ctx.sample({"function": "correct_mag", "x": x[0], "y_b": y[0], "code": code[0], "x_mag": x2[0]})


def finalize(m, tier):
    codes = m["cells"].get("init_codes", [])
    for c in ("0.0", "1.0", "2.0", "3.0"):
        if c not in codes:
            m["inconclusive"].append("initialize error code %s never observed" % c)
    for site, want in (("correct_mag", ("0.0", "1.0", "2.0")), ("correct_accel", ("0.0", "1.0"))):
        got = m["cells"].get("codes:" + site, [])
        for c in want:
            if c not in got:
                m["inconclusive"].append("%s error code %s never observed" % (site, c))
