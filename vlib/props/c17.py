"""C17 -- the shipped control cascade stabilises the shipped quadrotor model (closed-loop histories)."""
from __future__ import annotations

import contextlib
import io

import numpy as np
import casadi as ca

from .. import oracles as O
from ..caseval import Ev
from .lie_common import lib_call

PI = np.pi
SHARDS = {"quick": 16, "thorough": 16}
TIMEOUT = {"quick": 1500, "thorough": 8 * 3600}
REQUIRED_REACH = ['derive_model', 'derive_control_allocation', 'derive_position_control', 'derive_outerloop_control', 'derive_attitude_rate_control']
RULE = ("each case = one 30 s closed-loop trajectory: plant = the shipped quadrotor model (default parameters) integrated with RK4 at "
        "1 ms, controllers = the shipped CasADi functions at 100 Hz wired and tuned as in scripts/rdd2_sim.py (k_p_att=(5,5,2), rate PID "
        "(0.3,0.3,0.05)/(0.1,0.1,0), f_cut 10, F_max 20, trim m g), both cascades (position controller + attitude controller; SE_2(3) "
        "log-linear outer loop + so3 attitude law); initial position within +-1.5 m of the hover set-point, initial tilt up to 60 deg "
        "about a random horizontal axis composed with a yaw offset |psi0| <= 1 rad, initial velocity and body rates ~N(0,1), rotors at "
        "hover speed; monitors at every control step (finite, motor forces in [0,F_max], above ground) and over the last 5 s "
        "(position error < 5 cm, tilt < 0.05 rad, rates < 0.05 rad/s); non-trivial = every run; distinct = hashed initial conditions")
ASSUMPTIONS = ["log-linear cascade: commanded heading |psi_sp| <= 0.7 rad (0 is the simulator's default; on the pinned tree that cascade diverges for |psi_sp| > ~1 rad, which is outside the statement: it quantifies over initial conditions, not heading commands)",
               "true state fed back (the simulator's strapdown estimator is covered by C08)",
               "'attitude settles' from a start tilted <= 60 deg is taken to include that the tilt never exceeds 120 deg on the way (the unchanged tree stays within a few degrees of the initial tilt)",
               "the harness reproduces the wiring and gains of scripts/rdd2_sim.py; constants are read from the model's defaults at run time"]

DT = 0.01
SUB = 10
TF = 30.0
FMAX = 20.0


def build_step(ctx, mode):
    with contextlib.redirect_stdout(io.StringIO()):
        from cyecca.models import quadrotor, rdd2, rdd2_loglinear
    model = lib_call(ctx, "derive", "quadrotor", quadrotor.derive_model, not_implemented_ok=False)
    if model is None:
        return None
    eqs = {}
    for fn in ("derive_attitude_rate_control", "derive_attitude_control", "derive_position_control", "derive_control_allocation", "derive_common"):
        r = lib_call(ctx, "derive", fn, getattr(rdd2, fn), not_implemented_ok=False)
        if r is None:
            return None
        eqs.update(r)
    for fn in ("derive_se23_error", "derive_so3_attitude_control", "derive_outerloop_control"):
        r = lib_call(ctx, "derive", fn, getattr(rdd2_loglinear, fn), not_implemented_ok=False)
        if r is None:
            return None
        eqs.update(r)
    pd = model["p_defaults"]
    pi = model["p_index"]
    p = np.zeros(len(pi))
    for n, v in pd.items():
        p[pi[n]] = v
    m, g = pd["m"], pd["g"]
    trim = m * g
    l, CM, CT = pd["l_motor_0"], pd["CM"], pd["CT"]
    # gains, limits and plant parameters are run-time *inputs* of the composed step, as in the simulator (which calls the
    # functions with numeric arrays): written as constants they would be folded into the graph, and `0 * x` with a constant
    # 0 disappears even when x is NaN (i_max = ki = 0 in the simulator's configuration)
    gains_val = np.array([5, 5, 2, 0.3, 0.3, 0.05, 0, 0, 0, 0.1, 0.1, 0, 10.0, 0, 0, 0, trim, FMAX, l, CM, CT], dtype=float)
    gains = ca.SX.sym("gains", len(gains_val))
    k_p_att, kp, ki, kd, f_cut, i_max = gains[0:3], gains[3:6], gains[6:9], gains[9:12], gains[12], gains[13:16]
    trim_s, fmax_s, l_s, cm_s, ct_s = gains[16], gains[17], gains[18], gains[19], gains[20]
    psym = ca.SX.sym("p", len(p))
    z3 = ca.SX.sym("zero_setpoints", 3)
    x = ca.SX.sym("x", 17)
    i0, e0, de0 = ca.SX.sym("i0", 3), ca.SX.sym("e0", 3), ca.SX.sym("de0", 3)
    z_i = ca.SX.sym("z_i")
    target = ca.SX.sym("target", 3)
    psi_sp = ca.SX.sym("psi_sp")
    xi = model["x_index"]
    ix = lambda base, n: [xi["%s_%d" % (base, i)] for i in range(n)]
    IP, IV, IQ, IW, IM = ix("position_op_w", 3), ix("velocity_w_p_b", 3), ix("quaternion_wb", 4), ix("omega_wb_b", 3), ix("omega_motor", 4)
    pw, vb, q, om = x[IP], x[IV], x[IQ], x[IW]
    vw = eqs["rotate_vector_b_to_w"](q, vb)
    qc = ca.vertcat(ca.cos(psi_sp / 2), 0, 0, ca.sin(psi_sp / 2))  # commanded heading as a pure-yaw quaternion
    if mode == "position_control":
        thrust, q_sp, z_i2 = eqs["position_control"](trim_s, target, z3, z3, qc, pw, vw, z_i, DT)
        om_sp = eqs["attitude_control"](k_p_att, q, q_sp)
    else:
        zeta = eqs["se23_error"](pw, vw, q, target, z3, qc)
        thrust, q_sp, z_i2 = eqs["se23_position_control"](trim_s, k_p_att, zeta, z3, qc, z_i, DT)
        om_sp = eqs["so3_attitude_control"](k_p_att, q, q_sp)
    M, i1, e1, de1, alpha = eqs["attitude_rate_control"](kp, ki, kd, f_cut, i_max, om, om_sp, i0, e0, de0, DT)
    u, Fp, Fm, Ft, Ms = eqs["f_alloc"](fmax_s, l_s, cm_s, ct_s, thrust, M)
    f = model["f"]
    pp = psym
    h = DT / SUB
    xn = x
    zmin = x[IP[2]]
    for _ in range(SUB):
        k1 = f(xn, u, pp)
        k2 = f(xn + h / 2 * k1, u, pp)
        k3 = f(xn + h / 2 * k2, u, pp)
        k4 = f(xn + h * k3, u, pp)
        xn = xn + h / 6 * (k1 + 2 * k2 + 2 * k3 + k4)
        zmin = ca.fmin(zmin, xn[IP[2]])
    qn = xn[IQ]
    xn[IQ] = qn / ca.norm_2(qn)
    ev = Ev("step_" + mode, [x, i0, e0, de0, z_i, target, psi_sp, gains, psym, z3], [xn, i1, e1, de1, z_i2, Fp, u, thrust, q_sp, zmin], probe=False)
    hover = float(np.sqrt(m * g / 4 / CT))
    return ev, dict(IP=IP, IV=IV, IQ=IQ, IW=IW, IM=IM, hover=hover, gains=gains_val, p=p)


def initial_conditions(rng, H, idx, mode, structured=True):
    X = np.zeros((H, 17))
    # hover set-point anywhere (the problem is translation invariant), commanded heading anywhere for the
    # position-controller cascade; the log-linear cascade keeps the simulator's default heading 0 (DESIGN 2.C17)
    # altitude: the cascades legitimately lose up to ~7 m while recovering from a 60-degree tilt at 3 m/s (measured on
    # the unchanged tree); a start a few metres above the stiff ground model would turn that into a ground impact that
    # says nothing about the control law (this is what the first thorough run tripped over), so set-points are >= 30 m up
    target = np.stack([rng.uniform(-50, 50, H), rng.uniform(-50, 50, H), rng.uniform(30, 90, H)], axis=1)
    target[: max(1, H // 5)] = np.array([0, 0, 30.0])
    # log-linear cascade: the simulator's default heading 0, and moderate commanded headings up to +-0.7 rad (the unchanged tree
    # converges to millimetres up to 0.9 rad and diverges beyond ~1 rad, see DESIGN 2.C17)
    psi_sp = rng.uniform(-PI, PI, H) if mode == "position_control" else np.where(rng.random(H) < 0.5, 0.0, rng.uniform(-0.7, 0.7, H))
    psi_sp[: max(1, H // 5)] = 0.0
    X[:, idx["IP"]] = target + rng.uniform(-1.5, 1.5, (H, 3))
    tilt = rng.uniform(0, np.deg2rad(60), H)
    tilt[: max(1, H // 6)] = np.deg2rad(60)
    az = rng.uniform(-PI, PI, H)
    axis = np.stack([np.cos(az), np.sin(az), 0 * az], axis=1)
    q_tilt = O.axang_to_quat(axis, tilt)
    psi0 = psi_sp + rng.uniform(-1, 1, H)
    q_yaw = O.axang_to_quat(np.tile([0, 0, 1.0], (H, 1)), psi0)
    X[:, idx["IQ"]] = O.quat_mul(q_yaw, q_tilt) * rng.choice([-1.0, 1.0], (H, 1))
    X[:, idx["IV"]] = rng.normal(size=(H, 3))
    X[:, idx["IW"]] = rng.normal(size=(H, 3))
    X[:, idx["IM"]] = idx["hover"]
    # structured starts (exact zeros matter: an expression that is 0/0 on an axis is invisible to generic starts): already in
    # hover; a pure vertical / pure lateral offset at rest and level; a pure roll or pitch tilt released at rest
    if H >= 6 and structured:
        X[:6, idx["IV"]] = 0.0
        X[:6, idx["IW"]] = 0.0
        psi_sp[:6] = 0.0
        psi0[:6] = 0.0
        tilt[:6] = 0.0
        ident = np.array([1.0, 0, 0, 0])
        X[:6, idx["IQ"]] = ident
        X[:6, idx["IP"]] = target[:6]
        X[1, idx["IP"][2]] += 1.5
        X[2, idx["IP"][0]] -= 1.25
        X[3, idx["IQ"]] = O.axang_to_quat(np.array([[1.0, 0, 0]]), np.array([0.5]))[0]; tilt[3] = 0.5
        X[4, idx["IQ"]] = O.axang_to_quat(np.array([[0, 1.0, 0]]), np.array([-0.75]))[0]; tilt[4] = 0.75
        X[5, idx["IP"][1]] += 1.0
        X[5, idx["IP"][2]] -= 1.0
    return X, target, tilt, psi0, psi_sp


def run(ctx):
    H = 10 if ctx.quick else 300
    for mode in ("position_control", "se23_loglinear"):
        built = build_step(ctx, mode)
        if built is None:
            continue
        ev, idx = built
        rng = ctx.rng("c17:" + mode)
        X, target, tilt, psi0, psi_sp = initial_conditions(rng, H, idx, mode, structured=(ctx.shard % 4 == 0))
        X0 = X.copy()
        i0 = np.zeros((H, 3)); e0 = np.zeros((H, 3)); de0 = np.zeros((H, 3)); zi = np.zeros(H)
        tf_mode = TF if mode == "position_control" else 45.0  # with a commanded heading the log-linear cascade needs ~40 s from the fastest starts
        n = int(round(tf_mode / DT))
        Gn, Pn, Z3n = np.tile(idx["gains"], (H, 1)), np.tile(idx["p"], (H, 1)), np.zeros((H, 3))
        alive = np.ones(H, bool)
        first_nonfinite = np.full(H, -1)
        fmin, fmax = np.full(H, np.inf), np.full(H, -np.inf)
        zlow = np.full(H, np.inf)
        tail = int(round(5.0 / DT))
        perr = np.zeros(H); tiltmax = np.zeros(H); ratemax = np.zeros(H)
        pe0 = np.linalg.norm(X[:, idx["IP"]] - target, axis=1); pemax = pe0.copy(); tilt_run = np.zeros(H)
        perr_t = {5: np.zeros(H), 10: np.zeros(H), 20: np.zeros(H)}
        for k in range(n):
            (Xn, i1, e1, de1, zi2, Fp, u, thrust, qsp, zmin), _ = ev(X, i0, e0, de0, zi, target, psi_sp, Gn, Pn, Z3n)
            Xn = Xn[:, :, 0]
            fin = np.isfinite(Xn).all(axis=1) & np.isfinite(Fp[:, :, 0]).all(axis=1) & np.isfinite(u[:, :, 0]).all(axis=1)
            newly = alive & ~fin
            first_nonfinite[newly] = k
            alive &= fin
            Fk = Fp[:, :, 0]
            fmin = np.where(alive, np.minimum(fmin, Fk.min(axis=1)), fmin)
            fmax = np.where(alive, np.maximum(fmax, Fk.max(axis=1)), fmax)
            zlow = np.where(alive, np.minimum(zlow, zmin[:, 0, 0]), zlow)
            # frozen runs (non-finite) keep their last finite state so the batch can go on
            X = np.where(alive[:, None], Xn, X)
            i0 = np.where(alive[:, None], i1[:, :, 0], i0)
            e0 = np.where(alive[:, None], e1[:, :, 0], e0)
            de0 = np.where(alive[:, None], de1[:, :, 0], de0)
            zi = np.where(alive, zi2[:, 0, 0], zi)
            pe = np.linalg.norm(X[:, idx["IP"]] - target, axis=1)
            pemax = np.where(alive, np.maximum(pemax, pe), pemax)
            tilt_run = np.where(alive, np.maximum(tilt_run, np.arccos(np.clip(O.quat_to_R(X[:, idx["IQ"]])[:, 2, 2], -1, 1))), tilt_run)
            for T in perr_t:
                if k == int(T / DT):
                    perr_t[T] = pe.copy()
            if k >= n - tail:
                perr = np.maximum(perr, pe)
                R = O.quat_to_R(X[:, idx["IQ"]])
                tiltmax = np.maximum(tiltmax, np.arccos(np.clip(R[:, 2, 2], -1, 1)))
                ratemax = np.maximum(ratemax, np.linalg.norm(X[:, idx["IW"]], axis=1))
        inp = {"x0": X0, "initial_tilt": tilt, "initial_yaw": psi0, "target": target, "commanded_heading": psi_sp}
        ctx.check_array("never_nan", mode, (~alive).astype(float), 0.5, inp, extra={"first_nonfinite_step": first_nonfinite})
        ok = alive
        ctx.check_array("motor_forces_within_limits", mode, np.maximum(np.maximum(0, -fmin), np.maximum(0, fmax - FMAX))[ok], 1e-9 * FMAX, {k_: v[ok] for k_, v in inp.items()})
        ctx.check_array("stays_above_ground", mode, np.maximum(0, -zlow)[ok], 0.0, {k_: v[ok] for k_, v in inp.items()}, extra={"lowest_z": zlow[ok]})
        ctx.check_array("position_error_last_5s", mode, perr[ok], 0.05, {k_: v[ok] for k_, v in inp.items()})
        ctx.check_array("tilt_settled_last_5s", mode, tiltmax[ok], 0.05, {k_: v[ok] for k_, v in inp.items()})
        # "attitude settles" from a start tilted <= 60 degrees includes that the vehicle never turns over on the way
        # (unchanged tree: the tilt never grows by more than a few degrees; a sign error in the attitude feedback for
        # one quaternion hemisphere flips the vehicle to ~170 degrees before it recovers 14 m lower)
        ctx.check_array("never_turns_over", mode, tilt_run[ok], np.deg2rad(120.0), {k_: v[ok] for k_, v in inp.items()})
        ctx.check_array("rates_settled_last_5s", mode, ratemax[ok], 0.05, {k_: v[ok] for k_, v in inp.items()})
        ctx.distinct(X0)
        ctx.count("closed_loop_runs:" + mode, H)
        ctx.count("control_steps:" + mode, H * n)
        ctx.note("decay:" + mode, {"max_pos_err_at_5s": float(perr_t[5].max()), "at_10s": float(perr_t[10].max()), "at_20s": float(perr_t[20].max()),
                                   "last_5s": float(perr.max()), "max_excursion_growth": float((pemax - pe0).max()), "max_tilt_growth_deg": float(np.rad2deg(tilt_run - tilt).max()), "max_tilt_deg": float(np.rad2deg(tilt_run.max())), "lowest_z": float(zlow.min()), "max_motor_force": float(fmax.max())})
        ctx.sample({"mode": mode, "x0": X0[0], "pos_err_5_10_20_end": [float(perr_t[5][0]), float(perr_t[10][0]), float(perr_t[20][0]), float(perr[0])]})
