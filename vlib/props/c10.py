"""C10 -- filter numerics: square-root covariance algebra, factorizations, RK4."""
from __future__ import annotations

import numpy as np
import casadi as ca

from .. import oracles as O
from ..caseval import Ev
from .lie_common import lib_call

SHARDS = {"quick": 16, "thorough": 16}
REQUIRED_REACH = ['rk4', 'sqrt_covariance_predict', 'sqrt_correct', 'ldl_symmetric_decomposition', 'udu_symmetric_decomposition']
RULE = ("n in 1..8, m in 1..4 (thorough: n up to 10, m up to 5): random invertible lower-triangular W (condition number up to 1e6, "
        "negative diagonal entries allowed), arbitrary F, Q = A A^T incl. rank-deficient and zero, H incl. zero rows and repeated rows, "
        "lower-triangular invertible R factors; SPD matrices with condition number up to 1e6 for LDL/UDU; RK4 on cubic-in-t fields "
        "(exactness), smooth nonlinear fields (error ratio under step halving), h = 0; non-trivial = off-diagonal structure non-zero; "
        "distinct = hashed input matrices")
ASSUMPTIONS = ["numpy.linalg as oracle", "the CasADi functions are built through cyecca.util from symbolic matrices exactly as the estimator does"]


def rand_lower(rng, n, cond_max=1e6, neg_diag=True):
    L = np.tril(rng.normal(size=(n, n)))
    d = np.exp(rng.uniform(0, np.log(rng.choice([1e1, 1e3, cond_max])), n))
    d /= d.max()
    d = np.maximum(d, 1e-6)
    if neg_diag:
        d = d * rng.choice([-1.0, 1.0], n)
    L[np.diag_indices(n)] = d * rng.uniform(0.5, 2.0)
    off = rng.choice([0.0, 0.1, 1.0])
    L = np.tril(L, -1) * off * np.abs(d).min() ** rng.choice([0.0, 0.5]) + np.diag(np.diag(L))
    return L


def lower_sym(name, n):
    return ca.SX.sym(name, ca.Sparsity.lower(n))


def lower_pack(L):
    """nonzeros of a lower-triangular matrix in CasADi's column-major sparse order"""
    n = L.shape[0]
    return np.array([L[i, j] for j in range(n) for i in range(j, n)])


def run(ctx):
    import cyecca.util as util
    rng = ctx.rng("c10")
    nmax = 8 if ctx.quick else 10
    mmax = 4 if ctx.quick else 5
    reps = 250 if ctx.quick else 8000
    dims = [(n, m) for n in range(1, nmax + 1) for m in range(1, mmax + 1)]
    for i, (n, m) in enumerate(dims):
        if i % ctx.nshards != ctx.shard:
            continue
        if m == 1:
            predict(ctx, util, rng, n, reps)
            factorizations(ctx, util, rng, n, reps)
        if m == 2 and n >= 2:
            structured(ctx, util, rng, n, max(8, reps // 10))
        if m <= n + 1:
            correct(ctx, util, rng, n, m, reps)
    if ctx.shard == ctx.nshards - 1 or ctx.nshards == 1:
        rk4(ctx, util, rng, 40 if ctx.quick else 2000)


def predict(ctx, util, rng, n, reps):
    site = "n=%d" % n
    W = lower_sym("W", n)
    F = ca.SX.sym("F", n, n)
    Q = ca.SX.sym("Q", n, n)
    out = lib_call(ctx, "sqrt_covariance_predict", site, lambda: util.sqrt_covariance_predict(W, F, Q), not_implemented_ok=False)
    if out is None:
        return
    f = ca.Function("p", [W, F, Q], [ca.densify(out)])
    errs, tri, inputs = [], [], []
    for _ in range(reps):
        sc_ = float(rng.choice([1e-6, 1e-3, 1.0, 1.0, 1e3]))  # overall scale of the state (units)
        Wn = rand_lower(rng, n) * sc_
        Fn = rng.normal(size=(n, n)) * rng.choice([0.0, 1.0, 10.0])
        r = int(rng.integers(0, n + 1))
        A = rng.normal(size=(n, r)) if r else np.zeros((n, 1))
        Qn = A @ A.T * rng.choice([1e-3, 1.0]) * sc_**2
        Wd = np.array(f(ca.DM(ca.Sparsity.lower(n), lower_pack(Wn)), Fn, Qn))
        P = Wn @ Wn.T
        lhs = Wd @ Wn.T + Wn @ Wd.T
        rhs = Fn @ P + P @ Fn.T + Qn
        sc = max(1e-300, np.abs(rhs).max(), np.abs(Wd).max() * np.abs(Wn).max())
        cond = np.linalg.cond(Wn)
        errs.append(np.abs(lhs - rhs).max() / (sc * max(1.0, cond * 1e-3)) if np.isfinite(Wd).all() else np.inf)
        # entries above the diagonal are *solved* to zero (linear system for the skew correction): zero up to round-off
        # relative to the size of W' and the conditioning of W
        tri.append(np.abs(np.triu(Wd, 1)).max() / (max(1e-300, np.abs(Wd).max()) * max(1.0, cond * 1e-3)) if np.isfinite(Wd).all() else np.inf)
        inputs.append(np.concatenate([Wn.ravel(), Fn.ravel(), Qn.ravel()]))
    X = np.array(inputs)
    ctx.check_array("predict_lyapunov_identity", site, errs, 1e-9, {"W_F_Q": X})
    ctx.check_array("predict_lower_triangular", site, tri, 1e-9, {"W_F_Q": X})
    ctx.distinct(X, np.ones(len(X), bool) if n > 1 else np.abs(X[:, 0]) > 0)


def correct(ctx, util, rng, n, m, reps):
    site = "n=%d,m=%d" % (n, m)
    W = lower_sym("W", n)
    H = ca.SX.sym("H", m, n)
    Rs = lower_sym("Rs", m)
    out = lib_call(ctx, "sqrt_correct", site, lambda: util.sqrt_correct(Rs, H, W), not_implemented_ok=False)
    if out is None:
        return
    f = ca.Function("c", [Rs, H, W], [ca.densify(o) for o in out])
    eK, eS, eP, eT, ePSD, eMono, inputs = [], [], [], [], [], [], []
    for _ in range(reps):
        sc_ = float(rng.choice([1e-6, 1e-3, 1.0, 1.0, 1e3]))  # overall scale (units): small-innovation regimes included
        Wn = rand_lower(rng, n, cond_max=1e4) * sc_
        Hn = rng.normal(size=(m, n))
        if rng.random() < 0.2:
            Hn[int(rng.integers(0, m))] = 0.0
        if m > 1 and rng.random() < 0.1:
            Hn[1] = Hn[0]
        Rn = rand_lower(rng, m, cond_max=1e3) * sc_ * float(rng.choice([0.1, 1.0, 10.0]))
        Wp, K, Ss = [np.array(o) for o in f(ca.DM(ca.Sparsity.lower(m), lower_pack(Rn)), Hn, ca.DM(ca.Sparsity.lower(n), lower_pack(Wn)))]
        P = Wn @ Wn.T
        S = Hn @ P @ Hn.T + Rn @ Rn.T
        Kref = P @ Hn.T @ np.linalg.inv(S)
        Ppost = (np.eye(n) - Kref @ Hn) @ P
        c = max(1.0, np.linalg.cond(S) * 1e-4)
        sc = max(1e-300, np.abs(P).max())
        fin = np.isfinite(Wp).all() and np.isfinite(K).all() and np.isfinite(Ss).all()
        eK.append(np.abs(K - Kref).max() / (max(1.0, np.abs(Kref).max()) * c) if fin else np.inf)
        eS.append(np.abs(Ss @ Ss.T - S).max() / max(1e-300, np.abs(S).max()) if fin else np.inf)
        eP.append(np.abs(Wp @ Wp.T - Ppost).max() / (sc * c) if fin else np.inf)
        eT.append(max(np.abs(np.triu(Wp, 1)).max(), np.abs(np.triu(Ss, 1)).max()) if fin else np.inf)
        Pp = Wp @ Wp.T
        ePSD.append(max(0.0, -np.linalg.eigvalsh((Pp + Pp.T) / 2).min()) / sc if fin else np.inf)
        eMono.append(max(0.0, np.linalg.eigvalsh(((Pp - P) + (Pp - P).T) / 2).max()) / sc if fin else np.inf)
        inputs.append(np.concatenate([Rn.ravel(), Hn.ravel(), Wn.ravel()]))
    X = np.array(inputs)
    ctx.check_array("correct_gain", site, eK, 1e-9, {"Rs_H_W": X})
    ctx.check_array("correct_innovation_factor", site, eS, 1e-9, {"Rs_H_W": X})
    ctx.check_array("correct_posterior", site, eP, 1e-9, {"Rs_H_W": X})
    ctx.check_array("correct_lower_triangular", site, eT, 1e-12, {"Rs_H_W": X})
    ctx.check_array("correct_psd", site, ePSD, 1e-12, {"Rs_H_W": X})
    ctx.check_array("correct_covariance_not_increased", site, eMono, 1e-11, {"Rs_H_W": X})
    ctx.distinct(X)


def factorizations(ctx, util, rng, n, reps):
    site = "n=%d" % n
    P = ca.SX.sym("P", n, n)
    for name in ("ldl_symmetric_decomposition", "udu_symmetric_decomposition"):
        out = lib_call(ctx, name, site, lambda: getattr(util, name)(P), not_implemented_ok=False)
        if out is None:
            continue
        f = ca.Function("f", [P], [ca.densify(o) for o in out])
        eR, eU, eD, inputs = [], [], [], []
        for _ in range(reps):
            A = rng.normal(size=(n, n))
            Qm, _ = np.linalg.qr(A)
            ev = np.exp(rng.uniform(0, np.log(rng.choice([1e1, 1e3, 1e6])), n)) * float(rng.choice([1e-14, 1e-9, 1e-4, 1.0, 1.0, 1e4]))
            Pn = (Qm * ev) @ Qm.T
            Pn = (Pn + Pn.T) / 2
            T, D = [np.array(o) for o in f(Pn)]
            fin = np.isfinite(T).all() and np.isfinite(D).all()
            rec = T @ D @ T.T
            cond = ev.max() / ev.min()
            eR.append(np.abs(rec - Pn).max() / (np.abs(Pn).max() * max(1.0, cond * 1e-3)) if fin else np.inf)
            tri = np.triu(T, 1) if name.startswith("ldl") else np.tril(T, -1)
            eU.append(max(np.abs(tri).max() if n > 1 else 0.0, np.abs(np.diag(T) - 1).max()) if fin else np.inf)
            eD.append(np.abs(D - np.diag(np.diag(D))).max() if fin else np.inf)
            inputs.append(Pn.ravel())
        X = np.array(inputs)
        short = name.split("_")[0]
        ctx.check_array(short + "_reconstructs", site, eR, 1e-9, {"P": X})
        ctx.check_array(short + "_unit_triangular", site, eU, 1e-12, {"P": X})
        ctx.check_array(short + "_diagonal_D", site, eD, 0.0, {"P": X})
        ctx.distinct(X)


def patterns(rng, n):
    """named symmetric sparsity patterns with a full diagonal (numpy bool masks)"""
    I = np.eye(n, dtype=bool)
    out = {"diagonal": I.copy()}
    a = I.copy(); a[0, :] = True; a[:, 0] = True
    out["arrow_first"] = a
    a = I.copy(); a[-1, :] = True; a[:, -1] = True
    out["arrow_last"] = a
    t = I.copy()
    for i in range(n - 1):
        t[i, i + 1] = t[i + 1, i] = True
    out["tridiagonal"] = t
    b = I.copy(); h = max(1, n // 2); b[:h, :h] = True; b[h:, h:] = True
    out["block_diagonal"] = b
    r = rng.random((n, n)) < 0.35
    out["random"] = I | r | r.T
    return out


def spd_with_pattern(rng, mask):
    n = mask.shape[0]
    A = rng.normal(size=(n, n)); A = (A + A.T) / 2 * mask
    A[np.diag_indices(n)] = np.abs(A).sum(axis=1) + rng.uniform(0.1, 2.0, n)  # strictly diagonally dominant -> SPD
    return A * float(rng.choice([1e-6, 1.0, 1.0, 1e3]))


def sx_with(name, mask):
    sp = ca.DM(mask.astype(float)).sparsity()
    sp = ca.project(ca.DM(mask.astype(float)), ca.DM(mask.astype(float)).sparsity()).sparsity()
    sp = ca.sparsify(ca.DM(mask.astype(float))).sparsity()
    return ca.SX.sym(name, sp), sp


def structured(ctx, util, rng, n, reps):
    """the same identities for arguments that are *structurally* sparse SX matrices (the way the attitude filters call
    these functions: diagonal Q, F without diagonal, selection-row H), where fill-in matters, and for sequences of calls
    at one size with different structures (a result must depend on the arguments of this call only)."""
    site = "n=%d" % n
    pats = patterns(rng, n)
    # --- factorizations of structurally sparse SPD matrices
    for name in ("ldl_symmetric_decomposition", "udu_symmetric_decomposition"):
        short = name.split("_")[0]
        for pn, mask in pats.items():
            P, sp = sx_with("P", mask)
            out = lib_call(ctx, name, site + "," + pn, lambda: getattr(util, name)(P), not_implemented_ok=False)
            if out is None:
                continue
            f = ca.Function("f", [P], [ca.densify(o) for o in out])
            eR, eU, inputs = [], [], []
            for _ in range(reps):
                Pn = spd_with_pattern(rng, mask)
                T, D = [np.array(o) for o in f(ca.project(ca.DM(Pn), sp))]
                fin = np.isfinite(T).all() and np.isfinite(D).all()
                eR.append(np.abs(T @ D @ T.T - Pn).max() / np.abs(Pn).max() if fin else np.inf)
                tri = np.triu(T, 1) if short == "ldl" else np.tril(T, -1)
                eU.append(max(np.abs(tri).max(), np.abs(np.diag(T) - 1).max(), np.abs(D - np.diag(np.diag(D))).max()) if fin else np.inf)
                inputs.append(Pn.ravel())
            ctx.check_array(short + "_reconstructs_sparse", site + "," + pn, eR, 1e-9, {"P": np.array(inputs)})
            ctx.check_array(short + "_unit_triangular_sparse", site + "," + pn, eU, 1e-12, {"P": np.array(inputs)})
    # --- predict / correct: call sequences with different structures at the same size
    lowm = np.tril(np.ones((n, n), bool))
    full = np.ones((n, n), bool)
    offd = ~np.eye(n, dtype=bool)
    structures = [("sparse", np.eye(n, dtype=bool), offd, np.eye(n, dtype=bool)), ("dense", lowm, full, full),
                  ("mixed", lowm, pats["tridiagonal"], np.eye(n, dtype=bool)), ("dense2", lowm, full, pats["arrow_first"])]
    order = [structures[i] for i in rng.permutation(len(structures))] + [structures[1], structures[0], structures[1]]
    for step, (sn, mw, mf, mq) in enumerate(order):
        W, spw = sx_with("W", mw)
        F, spf = sx_with("F", mf)
        Q, spq = sx_with("Q", mq)
        out = lib_call(ctx, "sqrt_covariance_predict", site + "," + sn, lambda: util.sqrt_covariance_predict(W, F, Q), not_implemented_ok=False)
        if out is None:
            continue
        f = ca.Function("p", [W, F, Q], [ca.densify(out)])
        errs, tris, inputs = [], [], []
        for _ in range(max(3, reps // 4)):
            Wn = rand_lower(rng, n, cond_max=1e3) * mw
            Wn[np.diag_indices(n)] = np.where(np.diag(Wn) == 0, 1.0, np.diag(Wn))
            Fn = rng.normal(size=(n, n)) * mf
            A = rng.normal(size=(n, n))
            Qn = (A @ A.T) * mq if not mq.all() else A @ A.T
            if not mq.all():
                Qn = np.diag(np.abs(np.diag(Qn))) + (Qn - np.diag(np.diag(Qn))) * 0.01  # keep it PSD-ish; symmetric by construction
            Wd = np.array(f(ca.project(ca.DM(Wn), spw), ca.project(ca.DM(Fn), spf), ca.project(ca.DM(Qn), spq)))
            Pm = Wn @ Wn.T
            rhs = Fn @ Pm + Pm @ Fn.T + Qn
            lhs = Wd @ Wn.T + Wn @ Wd.T
            sc = max(1e-300, np.abs(rhs).max(), np.abs(Wd).max() * np.abs(Wn).max())
            errs.append(np.abs(lhs - rhs).max() / (sc * max(1.0, np.linalg.cond(Wn) * 1e-3)) if np.isfinite(Wd).all() else np.inf)
            tris.append(np.abs(np.triu(Wd, 1)).max() / (max(1e-300, np.abs(Wd).max()) * max(1.0, np.linalg.cond(Wn) * 1e-3)) if np.isfinite(Wd).all() else np.inf)
            inputs.append(np.concatenate([Wn.ravel(), Fn.ravel(), Qn.ravel()]))
        ctx.check_array("predict_lyapunov_identity_call_sequence", site + "," + sn, errs, 1e-9, {"W_F_Q": np.array(inputs), "position_in_sequence": np.full(len(errs), step)})
        ctx.check_array("predict_lower_triangular_call_sequence", site + "," + sn, tris, 1e-9, {"W_F_Q": np.array(inputs), "position_in_sequence": np.full(len(errs), step)})
    m = min(2, n)
    seq = [("selection", np.eye(m, n, dtype=bool), np.eye(m, dtype=bool), np.eye(n, dtype=bool)), ("dense", np.ones((m, n), bool), np.tril(np.ones((m, m), bool)), lowm)]
    for step, (sn, mh, mr, mw) in enumerate(seq + seq[::-1]):
        H, sph = sx_with("H", mh)
        Rs, spr = sx_with("Rs", mr)
        W, spw = sx_with("W", mw)
        out = lib_call(ctx, "sqrt_correct", site + "," + sn, lambda: util.sqrt_correct(Rs, H, W), not_implemented_ok=False)
        if out is None:
            continue
        f = ca.Function("c", [Rs, H, W], [ca.densify(o) for o in out])
        eP, inputs = [], []
        for _ in range(max(3, reps // 4)):
            Wn = rand_lower(rng, n, cond_max=1e3) * mw
            Hn = rng.normal(size=(m, n)) * mh
            Rn = rand_lower(rng, m, cond_max=1e2) * mr
            Wp, K, Ss = [np.array(o) for o in f(ca.project(ca.DM(Rn), spr), ca.project(ca.DM(Hn), sph), ca.project(ca.DM(Wn), spw))]
            Pm = Wn @ Wn.T
            S = Hn @ Pm @ Hn.T + Rn @ Rn.T
            Kref = Pm @ Hn.T @ np.linalg.inv(S)
            Ppost = (np.eye(n) - Kref @ Hn) @ Pm
            c = max(1.0, np.linalg.cond(S) * 1e-4)
            fin = np.isfinite(Wp).all() and np.isfinite(K).all()
            eP.append(max(np.abs(Wp @ Wp.T - Ppost).max() / (max(1e-300, np.abs(Pm).max()) * c), np.abs(K - Kref).max() / (max(1.0, np.abs(Kref).max()) * c)) if fin else np.inf)
            inputs.append(np.concatenate([Rn.ravel(), Hn.ravel(), Wn.ravel()]))
        ctx.check_array("correct_posterior_and_gain_call_sequence", site + "," + sn, eP, 1e-9, {"Rs_H_W": np.array(inputs), "position_in_sequence": np.full(len(eP), step)})


def rk4(ctx, util, rng, reps):
    """fourth-order consistency: exact when the derivative is a cubic polynomial in t; error ratio ~ 2^5 under
    halving for smooth fields; h = 0 is the identity"""
    t, h = ca.SX.sym("t"), ca.SX.sym("h")
    for d in (1, 2, 4):
        y = ca.SX.sym("y", d)
        c = ca.SX.sym("c", d, 4)
        fpoly = lambda tt, yy: c[:, 0] + c[:, 1] * tt + c[:, 2] * tt**2 + c[:, 3] * tt**3
        out = lib_call(ctx, "rk4", "poly_d=%d" % d, lambda: util.rk4(fpoly, t, y, h), not_implemented_ok=False)
        if out is None:
            continue
        F = ca.Function("r", [t, y, h, c], [out])
        errs, X = [], []
        for _ in range(reps):
            t0 = rng.uniform(-2, 2)
            hh = rng.choice([0.0, 1e-3, 0.1, 1.0, 3.0])
            y0 = rng.normal(size=d)
            cc = rng.normal(size=(d, 4))
            y1 = np.array(F(t0, y0, hh, cc)).ravel()
            prim = lambda tt: cc[:, 0] * tt + cc[:, 1] * tt**2 / 2 + cc[:, 2] * tt**3 / 3 + cc[:, 3] * tt**4 / 4
            ref = y0 + prim(t0 + hh) - prim(t0)
            errs.append(np.abs(y1 - ref).max() / max(1.0, np.abs(ref).max()))
            X.append(np.concatenate([[t0, hh], y0, cc.ravel()]))
        ctx.check_array("rk4_exact_on_cubic", "d=%d" % d, errs, 1e-11, {"t_h_y_c": np.array(X)})
        ctx.distinct(np.array(X), np.array(X)[:, 1] > 0)
    # smooth nonlinear field: y' = A y + sin(t) b + y^2-type term; order monitor by step halving against a fine reference
    y = ca.SX.sym("y", 2)
    k = ca.SX.sym("k", 4)
    fs = lambda tt, yy: ca.vertcat(k[0] * yy[1] + ca.sin(k[2] * tt), -k[1] * yy[0] - 0.1 * yy[1] * yy[0] ** 2 + ca.cos(k[3] * tt))
    out = lib_call(ctx, "rk4", "smooth", lambda: util.rk4(fs, t, y, h), not_implemented_ok=False)
    if out is not None:
        F = ca.Function("r", [t, y, h, k], [out])

        def steps(t0, y0, H, n, kk):
            yy = y0
            hh = H / n
            for i in range(n):
                yy = np.array(F(t0 + i * hh, yy, hh, kk)).ravel()
            return yy

        ratios, X, ident = [], [], []
        for _ in range(reps):
            kk = rng.uniform(0.5, 2.0, 4)
            y0 = rng.normal(size=2)
            t0 = rng.uniform(-1, 1)
            H = 0.2
            ref = steps(t0, y0, H, 256, kk)
            e1 = np.abs(steps(t0, y0, H, 1, kk) - ref).max()
            e2 = np.abs(steps(t0, y0, H, 2, kk) - ref).max()
            ratios.append(e1 / e2 if e2 > 1e-15 else 16.0)
            X.append(np.concatenate([[t0], y0, kk]))
            ident.append(np.abs(np.array(F(t0, y0, 0.0, kk)).ravel() - y0).max())
        ratios = np.array(ratios)
        # global error over a fixed interval H is O(h^4): halving the step divides it by ~16.  Individual cases can
        # deviate when leading error terms cancel, so the verdict is on the batch: median in [12, 22] and >= 85% in (8, 40)
        med = float(np.median(ratios))
        frac = float(((ratios > 8) & (ratios < 40)).mean())
        ctx.check("rk4_fourth_order_ratio", "smooth", (12 <= med <= 22) and frac >= 0.85, {"median_ratio": med, "fraction_in_8_40": frac, "n": len(ratios)})
        ctx.check_array("rk4_h0_identity", "smooth", ident, 0.0, {"t_y_k": np.array(X)})
        ctx.note("rk4_ratio_range", [float(ratios.min()), float(np.median(ratios)), float(ratios.max())])
        ctx.distinct(np.array(X))
