"""C20 -- the simulation bus delivers every message once, in order, to the right nodes; the estimator
node built on it respects its dt guard and rate limits.  Histories recorded at the client boundary,
checked offline against a small sequential model."""
from __future__ import annotations

import contextlib
import io

import numpy as np

from .lie_common import lib_call

SHARDS = {"quick": 16, "thorough": 16}
REQUIRED_REACH = ['Publisher.publish', 'Subscriber.__init__', 'Core.set_param', 'Param.update', 'Logger.run', 'Logger.callback', 'AttitudeEstimator.imu_callback', 'AttitudeEstimator.mag_callback']
RULE = ("each case = one random bus history: 2-7 topics (Imu/Mag/Attitude types), 0-4 subscribers per topic incl. topics nobody "
        "subscribes to and subscriptions to topics nobody publishes, publisher processes with random periods (equal periods -> "
        "simultaneous events, zero-delay bursts), callbacks that publish synchronously on another topic (nesting), wrong-type "
        "publishes, parameter sets at random times incl. logger-period changes; every message carries a unique id in its payload; "
        "estimator cases = the real AttitudeEstimator fed by a hostile publisher (duplicate, decreasing, bursty stamps) with recording "
        "proxies around its equation functions; non-trivial = history with >= 1 delivery; distinct = hashed topology+schedule "
        "parameters; interleavings = distinct event-kind prefixes")
ASSUMPTIONS = ["simpy scheduler is deterministic and correct", "at exact time ties between a log row and a publication / parameter change either order is accepted"]


def quiet():
    return contextlib.redirect_stdout(io.StringIO())


def run(ctx):
    with quiet():
        import simpy
        import cyecca.sim.uros as uros
        import cyecca.sim.msgs as msgs
    nb = 12 if ctx.quick else 1000
    for k in range(nb):
        bus_history(ctx, simpy, uros, msgs, ctx.rng("c20:bus%d" % k), k)
    ne = 2 if ctx.quick else 100
    eqs = None
    with quiet():
        from cyecca.estimate.attitude import algorithms
        from cyecca.estimate.attitude.estimator import AttitudeEstimator
        eqs = lib_call(ctx, "derive", "algorithms.eqs", lambda: algorithms.eqs()["mrp"], not_implemented_ok=False)
    if eqs is not None:
        for k in range(ne):
            estimator_history(ctx, simpy, uros, msgs, AttitudeEstimator, eqs, ctx.rng("c20:est%d" % k), k)


ID_FIELD = {"Imu": "gyro", "Mag": "mag", "Attitude": "q"}


FOREIGN = []  # deliveries that reached a subscriber of an *earlier* core (several cores live in one process)
CURRENT = {"hid": None}


def bus_history(ctx, simpy, uros, msgs, rng, k):
    types = {"Imu": msgs.Imu, "Mag": msgs.Mag, "Attitude": msgs.Attitude}
    core = uros.Core()
    hid = (ctx.shard, k)
    CURRENT["hid"] = hid
    n_foreign0 = len(FOREIGN)
    H = []  # the history: tuples, appended in real order

    ntop = int(rng.integers(2, 8))
    topics = ["t%d" % i for i in range(ntop)]
    ttype = {t: str(rng.choice(list(types))) for t in topics}
    # construction order is part of the schedule: some publishers are created only after their topic's subscribers
    late_pub = [t for t in topics if rng.random() < 0.35]
    pubs = {t: uros.Publisher(core, t, types[ttype[t]]) for t in topics if t not in late_pub}
    # nesting: callback of a subscriber on topic a publishes on topic b (b > a: acyclic), b has no own process
    nested = {}
    free = list(topics)
    for _ in range(int(rng.integers(0, 3))):
        if len(free) >= 2:
            a, b = sorted(rng.choice(len(free), 2, replace=False))
            nested[free[a]] = free[b]
    driven = [t for t in topics if t not in nested.values()]
    counter = {"n": 0, "seq": 0}

    def now():
        return float(core.now)

    # the `time` field is the *source's* stamp: late samples, jitter and a source clock that restarts are all legitimate; the
    # bus delivers and logs by publication order, whatever the payload says
    clock_offset = {t: float(rng.choice([0.0, 0.0, -0.2, 5.0])) for t in topics}

    def stamp(topic):
        if rng.random() < 0.03:
            clock_offset[topic] = -now()  # the source clock restarts
        return now() + clock_offset[topic] - (float(rng.uniform(0, 0.05)) if rng.random() < 0.25 else 0.0)

    def make_msg(topic, typ=None):
        typ = typ or ttype[topic]
        m = types[typ]()
        counter["n"] += 1
        mid = float(counter["n"])
        m.data["time"] = stamp(topic)
        m.data[ID_FIELD[typ]][0] = mid
        return m, mid

    # publishers that keep ONE message object per topic and fill it in before publishing (what Simulator and
    # AttitudeEstimator do); some of them fill it in a while before they publish: until then nobody may see the new content
    reuse = {t: types[ttype[t]]() for t in topics if rng.random() < 0.5}

    def prepare(topic):
        m = reuse[topic]
        counter["n"] += 1
        mid = float(counter["n"])
        m.data["time"] = stamp(topic)
        m.data[ID_FIELD[ttype[topic]]][0] = mid
        return m, mid

    def do_publish(topic, wrong=False, prepared=None):
        if prepared is not None:
            m, mid = prepared
        elif wrong:
            other = [x for x in types if x != ttype[topic]][0]
            m, mid = make_msg(topic, other)
        elif topic in reuse:
            m, mid = prepare(topic)
        else:
            m, mid = make_msg(topic)
        H.append(("call", topic, mid, now(), wrong))
        try:
            pubs[topic].publish(m)
            H.append(("ret", topic, mid, now(), None))
        except ValueError:
            H.append(("ret", topic, mid, now(), "ValueError"))
        except Exception as e:  # any other exception is recorded, the checker decides
            H.append(("ret", topic, mid, now(), type(e).__name__))

    subs_of = {t: [] for t in topics}
    sid = [0]
    self_nested = {t for t in driven if t not in nested and t not in reuse and rng.random() < 0.3}
    follow_ups = {}

    def add_sub(topic, typ):
        sid[0] += 1
        me = "s%d" % sid[0]

        def cb(m, me=me, topic=topic, typ=typ):
            if CURRENT["hid"] != hid:  # this subscriber belongs to a core built earlier in this process
                FOREIGN.append((hid, CURRENT["hid"], topic, me))
                return
            mid_ = float(m.data[ID_FIELD[typ]][0])
            H.append(("deliver", topic, mid_, now(), me))
            if topic in nested and me == subs_of[topic][0]:
                do_publish(nested[topic])
            # a callback that publishes on its *own* topic (a node reacting to a message with a follow-up): the follow-up is
            # published after the message being delivered, so every subscriber must see it after that message
            if topic in self_nested and me == subs_of[topic][0] and follow_ups.get(mid_, 0) < 2 and rng.random() < 0.5:
                follow_ups[float(counter["n"] + 1)] = follow_ups.get(mid_, 0) + 1  # chains: a follow-up may have a follow-up of its own
                do_publish(topic)
                ctx.count("same_topic_publish_from_callback")

        uros.Subscriber(core, topic, types[typ], cb)
        subs_of.setdefault(topic, []).append(me)

    for t in topics:
        for _ in range(int(rng.choice([0, 1, 1, 2, 3, 4]))):
            add_sub(t, ttype[t])
    for t in nested:
        if not subs_of[t]:
            add_sub(t, ttype[t])
    subs_of["ghost"] = []
    add_sub("ghost", "Imu")  # subscription to a topic nobody publishes
    for t in late_pub:
        pubs[t] = uros.Publisher(core, t, types[ttype[t]])
    for t in topics:  # and some subscribers join after every publisher exists
        if rng.random() < 0.3:
            add_sub(t, ttype[t])

    # parameter-following nodes
    nodes = []

    class Node:
        def __init__(self, name, n):
            self.name = name
            # defaults written the way the library's own nodes write them: `0` (an int literal for an "f8" parameter), a float,
            # a numpy scalar -- the value a node sees after a broadcast is the value that was set, whatever the default's type
            self.params = [uros.Param(core, "%s/p%d" % (name, i), [int(i), float(i), np.float64(i)][(i + n) % 3], "f8") for i in range(n)]
            uros.Subscriber(core, "params", msgs.Params, self.cb)

        def cb(self, msg):
            for p in self.params:
                p.update()
            H.append(("params_seen", self.name, None, now(), None))

    for i in range(int(rng.integers(1, 4))):
        nodes.append(Node("n%d" % i, int(rng.integers(1, 4))))

    # before the logger exists (it listens to everything): a wrong-type message must be rejected on every topic,
    # also on topics nobody subscribes to
    pre_bad = []
    for t in topics:
        other = [x for x in types if x != ttype[t]][0]
        n_before = len(H)
        try:
            pubs[t].publish(types[other]())
            pre_bad.append((t, len(subs_of[t]), "accepted"))
        except ValueError:
            if len(H) != n_before:
                pre_bad.append((t, len(subs_of[t]), "delivered"))
        except Exception as e:
            pre_bad.append((t, len(subs_of[t]), type(e).__name__))
    ctx.check("wrong_type_rejected_on_every_topic", "Publisher", not pre_bad, {"topics": ttype, "problems": pre_bad[:4]})
    logger = uros.Logger(core)
    core.init_params()
    locked_ok = False
    try:
        uros.Publisher(core, "late", msgs.Imu)
    except AssertionError:
        locked_ok = True
    periods = {}
    base = float(rng.choice([0.01, 0.004, 0.0125]))
    for t in driven:
        periods[t] = float(rng.choice([base, base, 2 * base, 0.007, 0.0033, 0.05]))

    def proc(topic, per):
        yield simpy.Timeout(core, float(rng.choice([0.0, 0.0, per / 3])))
        while True:
            r = rng.random()
            burst = 1 if r < 0.8 else int(rng.integers(2, 5))
            for _ in range(burst):
                do_publish(topic, wrong=rng.random() < 0.05)
            if topic in reuse and rng.random() < 0.5:
                # fill the held message in now, publish it later
                pre = prepare(topic)
                H.append(("prepared", topic, pre[1], now(), None))
                yield simpy.Timeout(core, per * float(rng.uniform(0.2, 0.9)))
                do_publish(topic, prepared=pre)
                ctx.count("messages_filled_in_before_publishing")
            yield simpy.Timeout(core, per if rng.random() < 0.9 else 0.0)

    for t in driven:
        simpy.Process(core, proc(t, periods[t]))

    param_names = [p.name for n in nodes for p in n.params]
    sets = []
    param_fail = []

    def pset():
        while True:
            yield simpy.Timeout(core, float(rng.uniform(0.011, 0.07)) + 1.234e-7)
            if rng.random() < 0.4:
                name, val = "logger/dt", float(rng.choice([0.005, 0.01, 0.013, 0.02]))
            else:
                name, val = str(rng.choice(param_names)), float(np.round(rng.normal(), 6))
                if rng.random() < 0.2:
                    val = 0.0  # zero is a value like any other
            handle = None
            if name != "logger/dt" and rng.random() < 0.3:
                handle = [p_ for n_ in nodes for p_ in n_.params if p_.name == name][0]
            try:
                if handle is not None:
                    handle.set(val)  # the node-side setter: same effect as setting the value on the core
                    ctx.count("parameter_sets_through_node_handle")
                else:
                    core.set_param(name, val)
            except Exception as e:
                param_fail.append((now(), name, "%s: %s" % (type(e).__name__, str(e)[:120]), "set through %s" % ("Param.set" if handle is not None else "core.set_param")))
                continue
            sets.append((now(), name, val))
            H.append(("set_param", name, val, now(), None))
            # after the (synchronous) broadcast every following node's cache equals the core's value
            for n in nodes:
                for p in n.params:
                    if p.get() != core.get_param(p.name):
                        param_fail.append((now(), p.name, p.get(), float(core.get_param(p.name))))
            if name == "logger/dt" and logger.dt.get() != val:
                param_fail.append((now(), name, logger.dt.get(), val))

    simpy.Process(core, pset())
    tf = float(rng.uniform(0.3, 0.8))
    exc = None
    try:
        with quiet():
            core.run(until=tf)
    except Exception as e:
        exc = "%s: %s" % (type(e).__name__, str(e)[:200])
    case = {"topics": ttype, "subscribers": {t: len(v) for t, v in subs_of.items()}, "nested": nested, "periods": periods, "tf": tf,
            "publishers_created_after_subscribers": late_pub}
    ctx.check("run_completes", "core.run", exc is None, {"case": case, "exception": exc})
    ctx.check("graph_locked_after_logger", "Publisher", locked_ok, {"case": case})
    if exc is not None:
        return
    check_history(ctx, H, subs_of, ttype, case)
    ctx.check("parameters_seen_by_every_follower", "params", not param_fail, {"case": case, "mismatches": param_fail[:3]})
    ctx.check("no_delivery_to_nodes_of_another_core", "Core", len(FOREIGN) == n_foreign0, {"case": case, "foreign_deliveries": [str(f) for f in FOREIGN[n_foreign0:n_foreign0 + 3]],
                                                                                         "count": len(FOREIGN) - n_foreign0})
    ctx.tally("parameter_broadcasts", len(sets))
    check_log(ctx, logger, H, sets, ttype, tf, case)
    ctx.distinct(np.array([[ntop, len(nested), tf, base, sum(len(v) for v in subs_of.values()), len(H)]], dtype=float))
    kinds = "".join({"call": "c", "ret": "r", "deliver": "d", "params_seen": "p", "set_param": "s", "prepared": "w"}[h[0]] for h in H[:300])
    ctx.cell("interleavings", hash(kinds) & 0xFFFFFFFF)
    ctx.count("history_events", len(H))
    ctx.count("bus_histories")
    if k < 1:
        ctx.sample({"history_case": case, "first_events": [list(map(str, h)) for h in H[:12]]})


def check_history(ctx, H, subs_of, ttype, case):
    """sequential model: a publish call is followed, before it returns, by exactly one delivery to each subscriber of the
    topic in registration order and to nobody else; wrong type -> ValueError and no delivery"""
    open_calls = {}
    deliveries = {}
    first_bad = None
    ncalls = 0
    for i, (kind, a, mid, t, extra) in enumerate(H):
        if kind == "call":
            open_calls[mid] = (i, a, extra)
            deliveries[mid] = []
            ncalls += 1
        elif kind == "deliver":
            if mid not in open_calls:
                first_bad = first_bad or ("delivery outside its publish call (late or duplicate)", H[i])
            else:
                deliveries.setdefault(mid, []).append((a, extra, t))
        elif kind == "ret":
            i0, topic, wrong = open_calls.pop(mid, (None, None, None))
            got = deliveries.get(mid, [])
            if wrong:
                if extra != "ValueError" or got:
                    first_bad = first_bad or ("wrong-type message not rejected cleanly", H[i], got[:3])
                continue
            if extra is not None:
                first_bad = first_bad or ("publish raised", H[i])
                continue
            want = subs_of.get(topic, [])
            if [g[1] for g in got] != want or any(g[0] != topic for g in got):
                first_bad = first_bad or ("deliveries != subscribers in registration order", topic, want, [g[1] for g in got], mid)
            if any(g[2] != H[i0][3] for g in got):
                first_bad = first_bad or ("delivery not synchronous (time differs)", H[i0], got[:3])
    # per-topic order at every subscriber = publication order (ids are increasing per call order)
    per = {}
    for kind, a, mid, t, extra in H:
        if kind == "deliver":
            lst = per.setdefault((a, extra), [])
            if lst and mid <= lst[-1]:
                first_bad = first_bad or ("per-subscriber order is not publication order", a, extra, lst[-1], mid)
            lst.append(mid)
    ctx.tally("exactly_once_in_order:bus", ncalls)
    if first_bad:
        ctx.violation("exactly_once_in_order", "bus", {"case": case, "problem": str(first_bad)[:600]})
    nd = sum(1 for h in H if h[0] == "deliver")
    ctx.count("deliveries", nd)
    ctx.count("wrong_type_publishes", sum(1 for h in H if h[0] == "call" and h[4]))


def check_log(ctx, logger, H, sets, ttype, tf, case):
    arr = logger.get_log_as_array()
    t = arr["time"]
    ok_mono = bool(np.all(np.diff(t) >= 0))
    ctx.check("log_time_non_decreasing", "logger", ok_mono, {"case": case})
    # period in force: row k+1 = row k + dt cached at row k; parameter-set times never tie with rows (offset 1.234e-7)
    dts = [(0.0, 1.0 / 200)] + [(ts, v) for ts, n, v in sets if n == "logger/dt"]
    exp = [0.0]
    while True:
        cur = [v for ts, v in dts if ts <= exp[-1]][-1]
        nxt = exp[-1] + cur
        if nxt >= tf:
            break
        exp.append(nxt)
    exp = np.array(exp)
    ok_rows = len(t) == len(exp) and bool(np.allclose(t, exp, rtol=0, atol=1e-9))
    ctx.check("one_row_per_logging_period", "logger", ok_rows, {"case": case, "rows": len(t), "expected_rows": len(exp),
                                                                "first_rows": t[:6].tolist(), "expected_first": exp[:6].tolist()})
    # content: every topic entry is the latest message published at or before the row
    pubs = {}
    for kind, a, mid, tt, extra in H:
        if kind == "ret" and extra is None:
            pubs.setdefault(a, []).append((tt, mid))
    bad = None
    nchk = 0
    for topic, lst in pubs.items():
        lst.sort()  # publication order = (time, id): a follow-up published from a callback returns before the message it follows
        fld = ID_FIELD[ttype[topic]]
        col = arr[topic][fld][:, 0]
        tp = np.array([x[0] for x in lst])
        ids = np.array([x[1] for x in lst])
        for r, tr in enumerate(t):
            before = ids[tp < tr]
            at = ids[tp == tr]
            acc = set(at.tolist())
            if len(before):
                acc.add(before[-1])
            else:
                acc.add(None)
            v = col[r]
            v = None if np.isnan(v) else float(v)
            nchk += 1
            if v not in acc:
                bad = bad or (topic, r, float(tr), v, sorted(x for x in acc if x is not None)[:4])
    ctx.tally("log_rows_hold_latest_message:logger", nchk)
    if bad:
        ctx.violation("log_rows_hold_latest_message", "logger", {"case": case, "topic_row_time_value_acceptable": str(bad)})


def estimator_history(ctx, simpy, uros, msgs, AttitudeEstimator, eqs, rng, k):
    calls = []
    cur = {"t": None}

    def wrap(name, f):
        def g(*a):
            dt = float(a[-1]) if name == "predict" else None
            calls.append((name, cur["t"], dt))
            return f(*a)
        return g

    weqs = {n: (wrap(n, f) if n in ("predict", "correct_accel", "correct_mag", "initialize") else f) for n, f in eqs.items()}
    core = uros.Core()
    pub_imu = uros.Publisher(core, "imu", msgs.Imu)
    pub_mag = uros.Publisher(core, "mag", msgs.Mag)
    init = bool(rng.integers(0, 2))
    with quiet():
        est = AttitudeEstimator(core, "mrp", weqs, init)
    uros.Logger(core)
    core.init_params()
    dmin_a = float(rng.choice([1 / 200, 0.02, 0.05]))
    dmin_m = float(rng.choice([1 / 200, 0.05, 0.1]))
    slow = rng.random() < 0.25  # minimum intervals of seconds (the limit is absolute: dt_min minus a 1 ms tolerance, whatever dt_min is)
    if slow:
        dmin_a = float(rng.choice([1.2, 2.5]))
        dmin_m = float(rng.choice([1.5, 4.0]))
    core.set_param("mrp/dt_min_accel", dmin_a)
    core.set_param("mrp/dt_min_mag", dmin_m)
    sent = {"imu": 0, "mag": 0, "dup": 0, "back": 0}

    def hostile():
        t = 0.0
        while True:
            r = rng.random()
            if r < 0.1:
                stamp = t
                sent["dup"] += 1
            elif r < 0.2:
                stamp = t - float(rng.uniform(0, 0.03))
                sent["back"] += 1
            else:
                t = t + float(rng.choice([1e-4, 1e-3, 0.005, 0.011, 0.05]) if not slow else rng.choice([0.0007, 1e-3, 0.0013]))
                stamp = t
            m = msgs.Imu()
            m.data["time"] = stamp
            m.data["gyro"] = rng.normal(size=3) * 0.1
            m.data["accel"] = np.array([0, 0, -9.8]) + rng.normal(size=3) * 0.01
            cur["t"] = stamp
            sent["imu"] += 1
            pub_imu.publish(m)
            if rng.random() < (0.4 if not slow else 0.9):
                mm = msgs.Mag()
                ms = stamp + float(rng.uniform(-0.01, 0.01))
                mm.data["time"] = ms
                mm.data["mag"] = np.array([0.1, 0, 0.02]) + rng.normal(size=3) * 1e-3
                cur["t"] = ms
                sent["mag"] += 1
                pub_mag.publish(mm)
            yield simpy.Timeout(core, float(rng.choice([0, 0.001, 0.004])))

    def reconfigure():
        # parameters are broadcast during the run as well (an unrelated parameter, or the same limits again): the minimum
        # intervals keep counting from the last correction
        while True:
            yield simpy.Timeout(core, float(rng.uniform(0.05, 0.4)))
            if rng.random() < 0.5:
                core.set_param("logger/dt", float(rng.choice([0.005, 0.01, 0.02])))
            else:
                core.set_param("mrp/dt_min_accel", dmin_a)
            ctx.count("parameter_broadcasts_during_estimator_run")

    simpy.Process(core, hostile())
    simpy.Process(core, reconfigure())
    exc = None
    try:
        with quiet():
            core.run(until=float(rng.uniform(1.5, 3.0)) if not slow else 30.0)
    except Exception as e:
        exc = "%s: %s" % (type(e).__name__, str(e)[:200])
    case = {"initialize": init, "dt_min_accel": dmin_a, "dt_min_mag": dmin_m, "sent": sent}
    ctx.check("run_completes", "estimator_node", exc is None, {"case": case, "exception": exc})
    pred = [c for c in calls if c[0] == "predict"]
    acc = [c[1] for c in calls if c[0] == "correct_accel"]
    mag = [c[1] for c in calls if c[0] == "correct_mag"]
    ctx.count("estimator_predict_calls", len(pred))
    ctx.count("estimator_accel_corrections", len(acc))
    ctx.count("estimator_mag_corrections", len(mag))
    ctx.count("hostile_duplicate_or_backward_stamps", sent["dup"] + sent["back"])
    if pred:
        ctx.check_array("predict_dt_positive", "estimator_node", [max(0.0, -min(c[2] for c in pred)) + (0.0 if min(c[2] for c in pred) > 0 else 1.0)], 0.5,
                        {"min_dt": [min(c[2] for c in pred)]})
    eps = 1e-3
    if len(acc) > 1:
        gap = np.diff(acc)
        ctx.check_array("accel_corrections_rate_limited", "estimator_node", np.maximum(0, (dmin_a - eps) - gap), 1e-12, {"gap": gap, "dt_min": np.full(len(gap), dmin_a)})
    if len(mag) > 1:
        gap = np.diff(mag)
        ctx.check_array("mag_corrections_rate_limited", "estimator_node", np.maximum(0, (dmin_m - eps) - gap), 1e-12, {"gap": gap, "dt_min": np.full(len(gap), dmin_m)})
    ctx.distinct(np.array([[float(init), dmin_a, dmin_m, sent["imu"], sent["mag"], len(pred)]], dtype=float))
    ctx.count("estimator_histories")
    if k < 1:
        ctx.sample({"estimator_case": case, "predict_calls": len(pred), "accel_corrections": len(acc), "mag_corrections": len(mag)})


def finalize(m, tier):
    c = m["counters"]
    for need in ("deliveries", "wrong_type_publishes", "estimator_predict_calls", "estimator_accel_corrections", "estimator_mag_corrections",
                 "hostile_duplicate_or_backward_stamps"):
        if c.get(need, 0) == 0:
            m["inconclusive"].append("never observed: " + need)
