"""C02 -- the group exponential is the matrix exponential of the algebra element."""
from __future__ import annotations

import numpy as np
import casadi as ca

from .. import oracles as O
from ..caseval import Ev
from ..groups import base_specs, product_specs, ProductSpec
from .lie_common import (inplace_history, sparse_param_form, lib_call, euler_ok, algebra_corpus, run_contract_slice, configs_for_shard,
                         algebra_switch_points, so3_of, parts_of)

SHARDS = {"quick": 14, "thorough": 16}
REQUIRED_REACH = ['SO3QuatLieGroup.exp', 'SO3MrpLieGroup.exp', 'SO3DcmLieGroup.exp', 'SO3EulerLieGroup.exp', 'SE2LieGroup.exp', 'SE3LieGroup.exp', 'SE23LieGroup.exp', 'LieGroupDirectProduct.exp']
RULE = ("per algebra/group pair: algebra vectors = corpus (0, denormals, both sides of 1e-3/0.0316/0.0632, pi, >pi) + "
        "random rays (angle 0..2pi-0.05 with tiny/near-limit mix, translations log-uniform 1e-6..1e3) + points obtained by "
        "bisecting every comparison node of the exp expression to adjacent doubles; reference scipy.linalg.expm of the "
        "oracle's hat matrix; non-trivial = rotation angle > 1e-6 or non-zero translation; distinct = hashed vectors")
ASSUMPTIONS = ["scipy.linalg.expm is accurate to ~1e-13 relative on these 2x2..5x5 matrices",
               "Euler targets within 2.5e-3 rad of gimbal lock excluded; angle capped at 2pi-0.05 (MRP 360-degree singularity)"]

N_QUICK = 12000
N_THOROUGH = 200000


def run(ctx):
    N = N_QUICK if ctx.quick else N_THOROUGH
    cfg_rng = np.random.default_rng([ctx.seed, 102])
    specs = base_specs() + product_specs(cfg_rng, ctx.tier)
    for spec in configs_for_shard(specs, ctx):
        check_config(ctx, spec, N if not isinstance(spec, ProductSpec) or ctx.quick else max(1000, N // 20))
    if ctx.shard == 0:
        run_contract_slice(ctx, base_specs(), 40 if ctx.quick else 400, ops=("exp",))
    if ctx.shard == 1 % ctx.nshards:
        inplace_history(ctx, base_specs() + product_specs(cfg_rng, "quick")[:2], 4 if ctx.quick else 40, ops=("exp", "alg_to_Matrix"))
        sparse_param_form(ctx, base_specs() + product_specs(cfg_rng, "quick")[:2], ops=("exp", "alg_to_Matrix"))


def check_config(ctx, spec, N):
    name = spec.name
    rng = ctx.rng("c02:" + name)
    G = lib_call(ctx, "lib", name, spec.lib)
    if G is None:
        return
    x = ca.SX.sym("x", spec.na)
    ev = lib_call(ctx, "exp", name, lambda: Ev("exp", [x], [G.algebra.elem(x).exp(G).param]))
    ev_m = lib_call(ctx, "exp_to_matrix", name, lambda: Ev("expm_", [x], [G.algebra.elem(x).exp(G).to_Matrix()], probe=False))
    if ev is None:
        return
    X = np.concatenate([algebra_corpus(spec), spec.alg_rand(rng, N)])
    sw = algebra_switch_points(ctx, spec, ev, rng)
    if len(sw):
        X = np.concatenate([X, sw])
    sc = spec.alg_scale(X)
    ref = O.expm_batch(spec.hat(X))
    ok = euler_ok(spec, ref)
    ctx.skip("euler_band:" + name, int((~ok).sum()))
    X, sc, ref = X[ok], sc[ok], ref[ok]
    nt = (spec.alg_angle(X) > 1e-6) | (np.abs(X).max(axis=1) > 0)
    ctx.distinct(X, nt)
    (P,), pr = ev(X)
    ctx.cells_from("exp:" + name, pr)
    M = spec.mat(P[:, :, 0])
    err = np.abs(M - ref).max(axis=(1, 2))
    ctx.check_array("exp_is_expm", name, err, 1e-9 * sc, {"x": X})
    if ev_m is not None:  # the statement is about the library's own matrix form of exp(x)
        (Ml,), _ = ev_m(X)
        ctx.check_array("matrix_form_of_exp_is_expm", name, np.abs(Ml - ref).max(axis=(1, 2)), 1e-9 * sc, {"x": X})
    if any(so3_of(p) is not None for p in parts_of(spec)) or name == "SE2":
        ctx.require("cell:exp:" + name, "(no branch cell of exp observed)")

    # exp(0) = identity
    (P0,), _ = ev(np.zeros((1, spec.na)))
    e0 = np.abs(spec.mat(P0[:, :, 0]) - np.eye(spec.md)).max()
    ctx.check_array("exp_zero", name, [e0], 1e-12, {"x": np.zeros((1, spec.na))})

    # exp(-x) = exp(x)^-1
    (Pn,), _ = ev(-X)
    okn = euler_ok(spec, np.swapaxes(ref, 1, 2)) if spec.md == 3 else euler_ok(spec, np.linalg.inv(ref))
    Mn = spec.mat(Pn[:, :, 0])
    err = np.abs(Mn @ M - np.eye(spec.md)).max(axis=(1, 2))
    ctx.check_array("exp_neg_is_inverse", name, err[okn], 1e-9 * sc[okn] ** 2, {"x": X[okn]})

    # exp((s+t)x) = exp(sx) exp(tx), composite angle kept below 2pi-0.05
    ang = spec.alg_angle(X)
    lim = (2 * np.pi - 0.05) / np.maximum(ang, 1e-300)
    s = rng.uniform(-1, 1, len(X))
    t = rng.uniform(-1, 1, len(X))
    k = np.minimum(1.0, lim / np.maximum(np.abs(s + t), 1e-300))
    k = np.minimum(k, np.minimum(lim / np.maximum(np.abs(s), 1e-300), lim / np.maximum(np.abs(t), 1e-300)))
    s, t = s * k, t * k
    Xs, Xt, Xst = X * s[:, None], X * t[:, None], X * (s + t)[:, None]
    (Ps,), _ = ev(Xs)
    (Pt,), _ = ev(Xt)
    (Pst,), _ = ev(Xst)
    Ms, Mt, Mst = spec.mat(Ps[:, :, 0]), spec.mat(Pt[:, :, 0]), spec.mat(Pst[:, :, 0])
    oka = euler_ok(spec, O.expm_batch(spec.hat(Xs))) & euler_ok(spec, O.expm_batch(spec.hat(Xt))) & euler_ok(
        spec, O.expm_batch(spec.hat(Xst))) if any((so3_of(p) is not None and so3_of(p).kind == "euler") for p in parts_of(spec)) else np.ones(len(X), bool)
    err = np.abs(Mst - Ms @ Mt).max(axis=(1, 2))
    ctx.check_array("exp_additive", name, err[oka], 3e-9 * sc[oka] ** 2, {"x": X[oka], "s": s[oka], "t": t[oka]})
    # ... and through the library's own product and matrix form: to_Matrix(exp(sx) * exp(tx)) = expm((s+t) x)
    # (the product of two MRP exps may lie outside the unit ball: its matrix is still that of the composite rotation)
    y = ca.SX.sym("y", spec.na)
    ev_p = lib_call(ctx, "exp_product_to_matrix", name, lambda: Ev("expprod", [x, y], [ca.densify((G.algebra.elem(x).exp(G) * G.algebra.elem(y).exp(G)).to_Matrix())], probe=False))
    if ev_p is not None:
        (Mp,), _ = ev_p(Xs, Xt)
        from .lie_common import mrp_product_ok
        okp = oka & mrp_product_ok(spec, Ps[:, :, 0], Pt[:, :, 0]) & euler_ok(spec, O.expm_batch(spec.hat(Xst)))
        if Mp.shape[1:] == (spec.md, spec.md):
            errp = np.abs(Mp - O.expm_batch(spec.hat(Xst))).max(axis=(1, 2))
            errp = np.where(np.isfinite(Mp).all(axis=(1, 2)), errp, np.inf)
            ctx.check_array("matrix_of_product_of_exps_is_expm_of_sum", name, errp[okp], 3e-9 * sc[okp] ** 2, {"x": X[okp], "s": s[okp], "t": t[okp]})
    ctx.sample({"config": name, "x": X[min(len(X) - 1, 30)]})
