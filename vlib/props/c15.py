"""C15 -- controller laws respect their saturations (as invariants of long recursions) and the
attitude error laws vanish exactly at zero error."""
from __future__ import annotations

import numpy as np
import casadi as ca

from .. import oracles as O
from ..caseval import Ev
from ..groups import SO3S, angle_mix
from .lie_common import lib_call

PI = np.pi
SHARDS = {"quick": 10, "thorough": 16}
REQUIRED_REACH = ['derive_attitude_rate_control', 'derive_input_velocity', 'derive_input_acro', 'derive_attitude_control', 'derive_so3_attitude_control', 'derive_se23_error']
RULE = ("histories: H independent closed recursions advanced in lock-step for K steps (rate PID: integrator/error/derivative state fed "
        "back; velocity-mode input: yaw and position set-points fed back while the vehicle moves, teleports and resets; position "
        "loop: height integrator fed back) under random and adversarial drives (sticks pinned at +-1, sign-alternating, huge "
        "errors, dt in [1e-3,1], gains/limits log-uniform incl. i_max = 0); every step checks the invariants; error laws: attitude "
        "pairs incl. identical rotation with either quaternion sign, near-identical, and generic (angle < pi-0.05); stick maps: "
        "affine-combination and corner-bound checks; non-trivial = non-zero drive; distinct = hashed (state, input) per step")
ASSUMPTIONS = ["filter coefficient checked for 2 pi dt f_cut in [6e-5, 6e4] (outside, alpha rounds to 0 or 1 in double)",
               "error-law 'reaches the reference' checked for unit gains; rotation errors within 0.05 rad of pi excluded"]


def run(ctx):
    if ctx.shard == ctx.nshards - 1:
        # the by-name calling convention of the shipped functions this property is about (see vlib/named.py)
        from .. import named
        named.monitor(ctx, ['rdd2:attitude_control', 'rdd2:attitude_rate_control', 'rdd2:input_acro', 'rdd2:input_velocity', 'rdd2_loglinear:so3_attitude_control', 'rdd2_loglinear:se23_attitude_control', 'rdd2_loglinear:se23_error'], ctx.rng("named"))
        ctx.require("call_by_argument_name", "(by-name calls never evaluated)")
        named.derivation_history(ctx, ['rdd2', 'rdd2_loglinear'], ctx.rng("named2"))
    units = ["rate_pid", "velocity_input", "position_loop", "sticks", "error_laws"]
    for i, u in enumerate(units):
        if i % len(units) != ctx.shard % len(units):
            continue
        rng = ctx.rng("c15:" + u)
        H = 300 if ctx.quick else 2000
        K = 150 if ctx.quick else 1500
        if u == "rate_pid":
            rate_pid(ctx, rng, H, K)
        elif u == "velocity_input":
            velocity_input(ctx, rng, H, K)
        elif u == "position_loop":
            position_loop(ctx, rng, H, K)
        elif u == "sticks":
            sticks(ctx, rng, 20000 if ctx.quick else 300000)
        else:
            error_laws(ctx, rng, 20000 if ctx.quick else 300000)


def drive(rng, H, K, k, dim, scale):
    """adversarial/random drive signals per history: pinned, alternating, random walk, bursts"""
    mode = rng.integers(0, 4, H)
    out = rng.normal(size=(H, dim)) * scale
    pinned = rng.choice([-1.0, 1.0], (H, dim)) * scale
    out = np.where((mode == 0)[:, None], pinned, out)
    out = np.where((mode == 1)[:, None], pinned * (1 if k % 2 else -1), out)
    out = np.where((mode == 2)[:, None], pinned * (100.0 if (k // 7) % 3 == 0 else 0.01), out)
    return out


def rate_pid(ctx, rng, H, K):
    from cyecca.models import rdd2
    f = lib_call(ctx, "derive", "attitude_rate_control", lambda: rdd2.derive_attitude_rate_control()["attitude_rate_control"], not_implemented_ok=False)
    if f is None:
        return
    s = [ca.SX.sym(n, k) for n, k in (("kp", 3), ("ki", 3), ("kd", 3), ("f_cut", 1), ("i_max", 3), ("omega", 3), ("omega_r", 3), ("i0", 3), ("e0", 3), ("de0", 3), ("dt", 1))]
    ev = Ev("pid", s, list(f(*s)))
    kp, ki, kd = [O.loguniform(rng, 1e-3, 10, (H, 3)) for _ in range(3)]
    f_cut = O.loguniform(rng, 0.1, 1e3, H)
    i_max = O.loguniform(rng, 1e-3, 10, (H, 3))
    i_max[rng.random(H) < 0.1] = 0.0
    i0 = rng.uniform(-1, 1, (H, 3)) * i_max
    e0 = np.zeros((H, 3))
    de0 = np.zeros((H, 3))
    worst_i, worst_a = 0.0, 0.0
    for k in range(K):
        dt = O.loguniform(rng, 1e-3, 1.0, H) if k % 5 else np.full(H, 1e-3)
        if k % 17 == 9:  # the limit is a run-time input: it may be changed between steps (also below the stored state)
            ch = rng.random(H) < 0.5
            i_max = np.where(ch[:, None], i_max * rng.choice([0.1, 0.5, 2.0], (H, 1)), i_max)
        if k % 23 == 11:  # ... and the previous integrator state is an input too: any value, not only reachable ones
            ch = rng.random(H) < 0.3
            i0 = np.where(ch[:, None], rng.normal(size=(H, 3)) * 5 * np.maximum(i_max, 0.1), i0)
        omega = drive(rng, H, K, k, 3, 10.0)
        omega_r = drive(rng, H, K, k + 1, 3, 10.0)
        (M, i1, e1, de1, alpha), _ = ev(kp, ki, kd, f_cut, i_max, omega, omega_r, i0, e0, de0, dt)
        i1, e1, de1, alpha = i1[:, :, 0], e1[:, :, 0], de1[:, :, 0], alpha[:, 0, 0]
        inp = {"i0": i0, "i_max": i_max, "omega": omega, "omega_r": omega_r, "dt": dt, "f_cut": f_cut, "step": np.full(H, k)}
        fin = np.isfinite(i1).all(axis=1) & np.isfinite(M[:, :, 0]).all(axis=1)
        exc = np.where(fin, np.maximum(0, np.abs(i1) - i_max).max(axis=1), np.inf)
        ctx.check_array("integrator_within_i_max", "attitude_rate_control", exc, 0.0, inp)
        x = 2 * PI * dt * f_cut
        ok = (x > 6e-5) & (x < 6e4)
        ctx.check_array("filter_coefficient_in_open_unit_interval", "attitude_rate_control", (~((alpha > 0) & (alpha < 1))).astype(float)[ok], 0.5, {k_: v[ok] for k_, v in inp.items()})
        ctx.check_array("error_is_reference_minus_measured", "attitude_rate_control", np.abs(e1 - (omega_r - omega)).max(axis=1), 1e-12 * np.maximum(1, np.abs(omega).max(axis=1) + np.abs(omega_r).max(axis=1)), inp)
        if k < 3:
            ctx.distinct(np.concatenate([i0, omega, omega_r, dt[:, None]], axis=1))
        i0, e0, de0 = i1, e1, np.where(np.isfinite(de1), de1, 0.0)
    ctx.count("history_steps:rate_pid", H * K)
    ctx.count("histories:rate_pid", H)
    ctx.sample({"recursion": "attitude_rate_control", "histories": H, "steps_each": K, "final_i": i0[0], "i_max": i_max[0]})


def velocity_input(ctx, rng, H, K):
    from cyecca.models import rdd2
    f = lib_call(ctx, "derive", "input_velocity", lambda: rdd2.derive_input_velocity()["input_velocity"], not_implemented_ok=False)
    if f is None:
        return
    s = [ca.SX.sym(n, k) for n, k in (("dt", 1), ("psi", 1), ("pwsp", 3), ("pw", 3), ("aetr", 4), ("reset", 1))]
    ev = Ev("iv", s, list(f(*s)))
    psi = rng.uniform(-PI, PI, H)
    psi[: H // 10] = rng.choice([-PI, PI, np.nextafter(PI, 4), -np.nextafter(PI, 4), 0.0], H // 10)
    pw = rng.normal(size=(H, 3)) * 5
    pwsp = pw + rng.normal(size=(H, 3)) * rng.choice([0.0, 0.5, 10.0], H)[:, None]
    for k in range(K):
        dt = O.loguniform(rng, 1e-3, 1.0, H)
        aetr = drive(rng, H, K, k, 4, 1.0)
        aetr = np.clip(aetr, -1, 1)
        reset = (rng.random(H) < 0.05).astype(float)
        # the vehicle: follows, drifts, or teleports
        mv = rng.integers(0, 10, H)
        pw = np.where((mv == 0)[:, None], pw + rng.normal(size=(H, 3)) * 50, np.where((mv < 5)[:, None], pw + 0.3 * (pwsp - pw), pw))
        outs, _ = ev(dt, psi, pwsp, pw, aetr, reset)
        psi1, pwsp1 = outs[0][:, 0, 0], outs[2][:, :, 0]
        inp = {"dt": dt, "psi_sp": psi, "pw_sp": pwsp, "pw": pw, "input_aetr": aetr, "reset": reset, "step": np.full(H, k)}
        fin = np.isfinite(psi1) & np.isfinite(pwsp1).all(axis=1)
        ctx.check_array("yaw_setpoint_wrapped", "input_velocity", np.where(fin, np.maximum(0, np.abs(psi1) - PI), np.inf), 1e-15, inp)
        # wrapped value is the same angle (mod 2 pi) as psi + rate*dt
        want = psi + np.deg2rad(60) * aetr[:, 3] * dt
        d = np.abs(np.remainder(psi1 - want + PI, 2 * PI) - PI)
        ctx.check_array("yaw_setpoint_same_angle", "input_velocity", np.where(fin, d, np.inf), 1e-9, inp)
        dist = np.linalg.norm(pwsp1 - pw, axis=1)
        ctx.check_array("position_setpoint_leash_2m", "input_velocity", np.where(fin, np.maximum(0, dist - 2.0), np.inf), 2e-9 * np.maximum(1, np.abs(pw).max(axis=1)), inp)
        r = reset > 0
        if r.any():
            ctx.check_array("reset_puts_setpoint_on_vehicle", "input_velocity", np.abs(pwsp1 - pw).max(axis=1)[r], 0.0, {k_: v[r] for k_, v in inp.items()})
        if k < 3:
            ctx.distinct(np.concatenate([dt[:, None], psi[:, None], pwsp, pw, aetr, reset[:, None]], axis=1))
        psi, pwsp = psi1, pwsp1
    ctx.count("history_steps:velocity_input", H * K)
    ctx.count("histories:velocity_input", H)


def position_loop(ctx, rng, H, K):
    from cyecca.models import rdd2
    f = lib_call(ctx, "derive", "position_control", lambda: rdd2.derive_position_control()["position_control"], not_implemented_ok=False)
    if f is None:
        return
    m, g, ki, zmax = rdd2.m, rdd2.g, rdd2.ki_z, rdd2.z_integral_max
    s = [ca.SX.sym(n, k) for n, k in (("trim", 1), ("pt", 3), ("vt", 3), ("at", 3), ("qc", 4), ("p", 3), ("v", 3), ("zi", 1), ("dt", 1))]
    ev = Ev("pc", s, list(f(*s)))
    trim = rng.uniform(0.5, 1.5, H) * m * g
    zi = rng.uniform(-1, 1, H) * zmax
    qc = SO3S["quat"].rand(rng, H)
    for k in range(K):
        dt = O.loguniform(rng, 1e-3, 1.0, H)
        pt, vt = drive(rng, H, K, k, 3, 10.0), drive(rng, H, K, k + 2, 3, 5.0)
        p, v = drive(rng, H, K, k + 1, 3, 10.0), drive(rng, H, K, k + 3, 3, 5.0)
        at = drive(rng, H, K, k + 4, 3, 3.0)
        (nT, q, zi2), _ = ev(trim, pt, vt, at, qc, p, v, zi, dt)
        nT, q, zi2 = nT[:, 0, 0], q[:, :, 0], zi2[:, 0, 0]
        inp = {"thrust_trim": trim, "pt_w": pt, "vt_w": vt, "at_w": at, "p_w": p, "v_w": v, "z_i": zi, "dt": dt, "step": np.full(H, k)}
        fin = np.isfinite(nT) & np.isfinite(q).all(axis=1) & np.isfinite(zi2)
        # demanded force = nT * body z axis of the returned attitude; feedback term = force - (trim + ki z_i) e3
        zB = O.quat_to_R(q / np.linalg.norm(q, axis=1, keepdims=True))[:, :, 2]
        Tv = nT[:, None] * zB
        fb = Tv - (trim + ki * zi)[:, None] * np.array([0, 0, 1.0])
        exc = np.maximum(0, np.linalg.norm(fb, axis=1) - 0.3 * m * g)
        reg = nT > 2e-3
        ctx.check_array("feedback_term_within_30pct_weight", "position_control", np.where(fin, exc, np.inf)[reg], 1e-9 * m * g, {k_: v_[reg] for k_, v_ in inp.items()})
        ctx.check_array("height_integrator_within_limit", "position_control", np.where(fin, np.maximum(0, np.abs(zi2) - zmax), np.inf), 0.0, inp)
        if k < 3:
            ctx.distinct(np.concatenate([trim[:, None], pt, vt, at, p, v, zi[:, None]], axis=1))
        zi = zi2
    ctx.count("history_steps:position_loop", H * K)
    ctx.count("histories:position_loop", H)


def sticks(ctx, rng, N):
    from cyecca.models import rdd2
    d2r = PI / 180
    # acro
    f = lib_call(ctx, "derive", "input_acro", lambda: rdd2.derive_input_acro()["input_acro"], not_implemented_ok=False)
    if f is not None:
        s = [ca.SX.sym(n, k) for n, k in (("trim", 1), ("delta", 1), ("aetr", 4))]
        ev = Ev("acro", s, list(f(*s)))
        trim, delta = rng.uniform(0, 30, N), rng.uniform(0, 30, N)
        a, b = rng.uniform(-1, 1, (N, 4)), rng.uniform(-1, 1, (N, 4))
        k = N // 10
        a[:k] = rng.choice([-1.0, 1.0], (k, 4))
        lam = rng.uniform(0, 1, N)
        (wa, ta), _ = ev(trim, delta, a)
        (wb, tb), _ = ev(trim, delta, b)
        (wc, tc), _ = ev(trim, delta, lam[:, None] * a + (1 - lam)[:, None] * b)
        inp = {"trim": trim, "delta": delta, "a": a, "b": b, "lambda": lam}
        e = np.maximum(np.abs(wc - (lam[:, None, None] * wa + (1 - lam)[:, None, None] * wb)).max(axis=(1, 2)),
                       np.abs(tc - (lam[:, None, None] * ta + (1 - lam)[:, None, None] * tb)).max(axis=(1, 2)) / np.maximum(1, trim + delta))
        ctx.check_array("sticks_affine", "input_acro", e, 1e-12, inp)
        lim = np.array([rdd2.rollpitch_rate_max, rdd2.rollpitch_rate_max, rdd2.yaw_rate_max]) * d2r
        ctx.check_array("rate_command_bounded", "input_acro", np.maximum(0, np.abs(wa[:, :, 0]) - lim).max(axis=1), 1e-12, inp)
        ctx.check_array("rate_command_proportional", "input_acro", np.abs(wa[:, :, 0] - a[:, [0, 1, 3]] * lim).max(axis=1), 1e-12, inp)
        ctx.check_array("thrust_command_bounded", "input_acro", np.maximum(0, np.abs(ta[:, 0, 0] - trim) - delta), 1e-12 * np.maximum(1, trim + delta), inp)
        ctx.check_array("thrust_command_affine_in_stick", "input_acro", np.abs(ta[:, 0, 0] - (trim + a[:, 2] * delta)), 1e-12 * np.maximum(1, trim + delta), inp)
        ctx.distinct(np.concatenate([trim[:, None], delta[:, None], a], axis=1))
    # auto level: commanded roll/pitch angles linear in the sticks and bounded
    f = lib_call(ctx, "derive", "input_auto_level", lambda: rdd2.derive_input_auto_level()["input_auto_level"], not_implemented_ok=False)
    if f is not None:
        s = [ca.SX.sym(n, k) for n, k in (("trim", 1), ("delta", 1), ("aetr", 4), ("q", 4))]
        ev = Ev("al", s, list(f(*s)))
        trim, delta = rng.uniform(0, 30, N), rng.uniform(0, 30, N)
        a = rng.uniform(-1, 1, (N, 4))
        a[: N // 10] = rng.choice([-1.0, 1.0], (N // 10, 4))
        q0 = SO3S["quat"].rand(rng, N)
        E0 = O.R_to_euler321(O.quat_to_R(q0))
        ok = np.abs(np.abs(E0[:, 1]) - PI / 2) > 2.5e-3
        (qr, th), _ = ev(trim, delta, a, q0)
        R = O.quat_to_R(qr[:, :, 0])
        E = O.R_to_euler321(R)
        mx = rdd2.rollpitch_max * d2r
        inp = {"input_aetr": a, "q": q0}
        ctx.check_array("angle_command_proportional", "input_auto_level", np.maximum(np.abs(E[:, 1] - mx * a[:, 1]), np.abs(E[:, 2] - mx * a[:, 0])), 1e-9, inp)
        ctx.check_array("angle_command_bounded", "input_auto_level", np.maximum(0, np.maximum(np.abs(E[:, 1]), np.abs(E[:, 2])) - mx), 1e-9, inp)
        dyaw = np.abs(np.remainder(E[:, 0] - (E0[:, 0] + rdd2.yaw_rate_max * d2r * a[:, 3]) + PI, 2 * PI) - PI)
        ctx.check_array("yaw_command_offset_proportional", "input_auto_level", dyaw[ok], 1e-9 / np.maximum(np.cos(E0[ok, 1]), 1e-3), {k_: v[ok] for k_, v in inp.items()})
        ctx.check_array("thrust_command_affine_in_stick", "input_auto_level", np.abs(th[:, 0, 0] - (trim + a[:, 2] * delta)), 1e-12 * np.maximum(1, trim + delta), inp)
        ctx.distinct(np.concatenate([a, q0], axis=1))


def error_laws(ctx, rng, N):
    from cyecca.models import rdd2, rdd2_loglinear as ll
    qs = SO3S["quat"]
    # attitude pairs
    q = qs.rand(rng, N)
    ax, th = O.random_axes(rng, N), angle_mix(rng, N, PI - 0.05, near_hi=True)
    th = np.minimum(th, PI - 0.05)
    dq = O.axang_to_quat(ax, th)
    qr = O.quat_mul(q, dq) * rng.choice([-1.0, 1.0], (N, 1))
    # same rotation, either sign
    k = N // 4
    qr[:k] = q[:k] * rng.choice([-1.0, 1.0], (k, 1))
    th[:k] = 0.0
    e_true = ax * th[:, None]
    same = th == 0
    kp = O.loguniform(rng, 0.1, 10, (N, 3))
    ones = np.ones((N, 3))
    defs = [("attitude_control", lambda: rdd2.derive_attitude_control()["attitude_control"]),
            ("so3_attitude_control", lambda: ll.derive_so3_attitude_control()["so3_attitude_control"])]
    for name, mk in defs:
        f = lib_call(ctx, "derive", name, mk, not_implemented_ok=False)
        if f is None:
            continue
        s = [ca.SX.sym(n_, k_) for n_, k_ in (("kp", 3), ("q", 4), ("qr", 4))]
        ev = Ev(name, s, [f(*s)])
        (w,), pr = ev(kp, q, qr)
        ctx.cells_from("predicates:" + name, pr)
        w = w[:, :, 0]
        inp = {"kp": kp, "q": q, "q_r": qr}
        ctx.check_array("zero_at_same_rotation", name, np.where(np.isfinite(w).all(axis=1), np.abs(w).max(axis=1), np.inf)[same], 1e-9, {k_: v[same] for k_, v in inp.items()})
        (w1,), _ = ev(ones, q, qr)
        w1 = w1[:, :, 0]
        reach = np.abs(O.quat_to_R(q) @ O.rodrigues(w1) - O.quat_to_R(qr)).max(axis=(1, 2))
        ctx.check_array("unit_gain_reaches_reference", name, np.where(np.isfinite(w1).all(axis=1), reach, np.inf), 1e-9, inp)
        ctx.check_array("unit_gain_is_error_rotation_vector", name, np.abs(w1 - e_true).max(axis=1), 1e-9 * np.maximum(1, 1 / np.maximum(np.sin(th), 2e-2)), inp)
        if name == "attitude_control":  # documented as element-wise gain on the error vector
            ctx.check_array("gain_scales_error", name, np.abs(w - kp * e_true).max(axis=1), 1e-8 * np.maximum(1, 1 / np.maximum(np.sin(th), 2e-2)), inp)
        else:  # log-linear law: gains act on the error vector, mapped by the *left* Jacobian of so(3) at the error
            law = np.einsum("nij,nj->ni", O.so3_left_jac(e_true), kp * e_true)
            ctx.check_array("gain_scales_error_through_left_jacobian", name, np.abs(w - law).max(axis=1), 1e-8 * np.maximum(1, 1 / np.maximum(np.sin(th), 2e-2)), inp)
    ctx.distinct(np.concatenate([q, qr], axis=1), ~same)
    # SE_2(3): error + attitude law
    fe = lib_call(ctx, "derive", "se23_error", lambda: ll.derive_se23_error()["se23_error"], not_implemented_ok=False)
    fa = lib_call(ctx, "derive", "se23_attitude_control", lambda: ll.derive_outerloop_control()["se23_attitude_control"], not_implemented_ok=False)
    if fe is not None and fa is not None:
        M = min(N, 4000)
        # (the first N//4 pairs are the same-rotation cases: take an eighth of those and fill up from the general pairs --
        #  the first version took the first M pairs and so only ever saw identical attitudes here)
        sel = np.r_[0:M // 8, N - (M - M // 8):N]
        s = [ca.SX.sym(n_, k_) for n_, k_ in (("p", 3), ("v", 3), ("q", 4), ("pr", 3), ("vr", 3), ("qr", 4), ("kp", 3))]
        zeta = fe(*s[:6])
        ev = Ev("se23law", s, [zeta, fa(s[6], zeta)])
        p, v, pr_, vr = [rng.normal(size=(M, 3)) * 2 for _ in range(4)]
        (z, u), _ = ev(p, v, q[sel], pr_, vr, qr[sel], kp[sel])
        z, u = z[:, :, 0], u[:, :, 0]
        inp = {"q": q[sel], "q_r": qr[sel], "p": p, "p_r": pr_}
        sm = same[sel]
        ctx.check_array("zero_at_same_rotation", "se23_attitude_control", np.where(np.isfinite(u).all(axis=1), np.abs(u).max(axis=1), np.inf)[sm], 1e-9, {k_: v_[sm] for k_, v_ in inp.items()})
        ctx.check_array("error_rotation_part_is_rotation_vector", "se23_error", np.abs(z[:, 6:] - e_true[sel]).max(axis=1), 1e-9 * np.maximum(1, 1 / np.maximum(np.sin(th[sel]), 2e-2)), inp)
        law = np.einsum("nij,nj->ni", O.so3_left_jac(e_true[sel]), kp[sel] * e_true[sel])
        ctx.check_array("gain_scales_error_through_left_jacobian", "se23_attitude_control", np.abs(u - law).max(axis=1), 1e-8 * np.maximum(1, 1 / np.maximum(np.sin(th[sel]), 2e-2)), inp)
        (z1, u1), _ = ev(p, v, q[sel], pr_, vr, qr[sel], ones[sel])
        u1 = u1[:, :, 0]
        reach = np.abs(O.quat_to_R(q[sel]) @ O.rodrigues(u1) - O.quat_to_R(qr[sel])).max(axis=(1, 2))
        ctx.check_array("unit_gain_reaches_reference", "se23_attitude_control", np.where(np.isfinite(u1).all(axis=1), reach, np.inf), 1e-9, inp)
        # position/velocity parts of the error vanish when pose and reference coincide
        (z0, _u0), _ = ev(p, v, q[sel], p, v, q[sel] * rng.choice([-1.0, 1.0], (M, 1)), ones[sel])
        ctx.check_array("zero_error_at_identical_state", "se23_error", np.abs(z0[:, :, 0]).max(axis=1), 1e-9, {"q": q[sel], "p": p, "v": v})
