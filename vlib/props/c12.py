"""C12 -- the attitude estimator converges to the truth in closed-loop simulation (histories)."""
from __future__ import annotations

import contextlib
import json
import os
import io
import traceback

import numpy as np

from .. import oracles as O
from .lie_common import lib_call

PI = np.pi
SHARDS = {"quick": 16, "thorough": 16}
TIMEOUT = {"quick": 1500, "thorough": 8 * 3600}
REQUIRED_REACH = ['launch_sim', 'Simulator.run', 'AttitudeEstimator.imu_callback', 'AttitudeEstimator.mag_callback', 'Publisher.publish', 'Logger.run']
RULE = ("each case = one run of the packaged launch_sim (noise off, 30 simulated seconds, body rates up to 10 rad/s) with a random true "
        "attitude (angle 0..pi), gyro bias with every component |b| in [0.03,0.1] rad/s and random sign, estimator initialised from "
        "measurements or started at zero, inclination +-1 rad, declination +-0.4 rad (a quarter of the runs up to +-0.9), dt_sim in {1/800,1/400}, dt_imu in "
        "{1/400,1/250,1/200}, dt_mag in {1/100,1/50,1/20}, logger period in {1/200,1/100,0.013}, estimator rate limits, g, mag_str, parameters set in a random order; monitors: recording proxies around "
        "the simulator's sensor functions (oracle sensor model per call), subscribers on imu/mag/attitude topics (per message), "
        "offline checker on the returned log; non-trivial = every run (attitude and bias never zero); distinct = hashed run "
        "parameters; interleavings = distinct prefixes of the (attitude, imu, mag, estimate, log-row) event-kind sequence")
ASSUMPTIONS = ["'after a transient' = after 15 s of a 30 s run; a run that has not converged by then (upside-down start with the estimator at zero "
               "and slow corrections needs ~60 s) is re-run for 150 s and decided on (100 s, 150 s]; 'a few hundredths of a radian' = 0.05 rad; "
               "'approach the true bias' = over the last 2 s each component's error is <= max(0.01 rad/s, 80% of its error around 12-18 s)", "IMU rate >= 200 Hz (shipped default) -- slower rates are outside the claimed envelope",
               "'supported range' of the inclination for the convergence claim = +-1 rad; for 1.0..1.33 rad (the initialisation gate is at 80 degrees) only "
               "sensor model, periods, no NaN/exception and 'initialises and publishes' are claimed (unchanged tree: heading does not converge at -1.2..-1.32 rad, a design limit)",
               "simpy scheduler"]


def quat_angle(q1, q2):
    d = np.abs(np.sum(q1 * q2, axis=-1))
    return 2 * np.arccos(np.clip(d, 0, 1))


ESCALATIONS = {"n": 0}


def convergence(t, qs, qe, bs, be, t_late, tf):
    """(max attitude error after t_late, per-component max bias error over the last 2 s, same over 12-18 s)."""
    have = ~np.isnan(qe).any(axis=1)
    err = quat_angle(qs, qe)
    m = have & (t > t_late)
    emax = float(np.nanmax(err[m])) if m.any() else float("nan")
    berr = np.abs(be - bs)
    w_mid = have & (t >= 12.0) & (t <= 18.0)
    w_end = have & (t >= tf - 2.0)
    if w_mid.any() and w_end.any():
        return emax, np.nanmax(berr[w_end], axis=0), np.nanmax(berr[w_mid], axis=0)
    return emax, np.full(3, np.nan), np.full(3, np.nan)


def run(ctx):
    if ctx.shard == ctx.nshards - 1:
        # the by-name calling convention of the shipped functions this property is about (see vlib/named.py)
        from .. import named
        named.monitor(ctx, ['attitude.sim:measure_accel', 'attitude.sim:measure_gyro', 'attitude.sim:measure_mag', 'attitude.sim:simulate', 'attitude.sim:get_state', 'attitude.sim:rotation_error'], ctx.rng("named"))
        ctx.require("call_by_argument_name", "(by-name calls never evaluated)")
        named.derivation_history(ctx, ['attitude.sim'], ctx.rng("named2"))
    with contextlib.redirect_stdout(io.StringIO()):
        from cyecca.estimate.attitude import launch
        import cyecca.sim.uros as uros
        import cyecca.sim.msgs as msgs
    runs = 1 if ctx.quick else 26
    for k in range(runs):
        one_run(ctx, launch, uros, msgs, ctx.rng("c12:run%d" % k), k)


def one_run(ctx, launch, uros, msgs, rng, k):
    ang = rng.uniform(0, PI)
    ax = O.random_axes(rng, 1)[0]
    r = np.tan(ang / 4) * ax
    b = rng.uniform(0.03, 0.1, 3) * rng.choice([-1.0, 1.0], 3)
    init = bool(rng.integers(0, 2))
    if not init and rng.random() < 0.5:
        # directed: estimator started at zero while the true heading is far (100..180 deg) from zero
        psi = rng.choice([-1.0, 1.0]) * rng.uniform(np.deg2rad(100), PI)
        tilt = O.random_axes(rng, 1)[0] * rng.uniform(0, 0.5)
        q = O.R_to_quat((O.Rz(np.array(psi)) @ O.rodrigues(tilt[None, :])[0])[None])[0]
        q = q if q[0] >= 0 else -q
        r = q[1:] / (1 + q[0])
        ang = 2 * np.arccos(min(1.0, q[0]))
    flipped = (not init) and rng.random() < 0.12
    if flipped:
        # directed: truth upside-down (170..180 deg about a horizontal axis), estimator at zero -- the slowest legitimate start
        phi = rng.uniform(0, 2 * PI)
        ang = rng.uniform(np.deg2rad(170), PI)
        r = np.tan(ang / 4) * np.array([np.cos(phi), np.sin(phi), rng.uniform(-0.05, 0.05)])
    incl, decl = rng.uniform(-1.0, 1.0), rng.uniform(-0.4, 0.4)
    if rng.random() < 0.25:
        decl = float(rng.choice([-1.0, 1.0]) * rng.uniform(0.4, 0.9))  # large declinations (polar regions): a heading offset like any other
    directed_steep = k == 0 and ctx.shard % 8 == 3
    steep = directed_steep or ((not flipped) and rng.random() < 0.12)
    flipped = flipped and not steep
    if steep:
        # steep field (57..76 degrees): the initialisation gate refuses a field closer than 10 degrees to gravity, i.e.
        # |inclination| > 80 deg, so initialisation must still succeed here.  Convergence is NOT claimed for this class: the
        # correction projects the measured field with the estimated attitude and knows nothing about the inclination, and on
        # the unchanged tree the heading does not converge at -1.2 .. -1.32 rad (error grows to 2-3 rad; +1.32 converges
        # slowly) -- a design limit of the filter, see DESIGN 2.C12.  Sensor model, periods, no-NaN/exception and "the
        # estimator initialises and publishes" are checked.
        incl = float(rng.choice([-1.0, 1.0]) * rng.uniform(1.0, 1.33))
        if directed_steep:
            incl = float((-1.0 if ctx.shard % 16 == 3 else 1.0) * rng.uniform(1.25, 1.33))
        init = True
    P = {"sim/enable_noise": False, "sim/mag_incl": incl, "sim/mag_decl": decl, "mrp/mag_decl": decl,
         "sim/dt_sim": float(rng.choice([1 / 800, 1 / 400])), "sim/dt_imu": float(rng.choice([1 / 400, 1 / 250, 1 / 200])),
         "sim/dt_mag": float(rng.choice([1 / 100, 1 / 50, 1 / 20])), "logger/dt": float(rng.choice([1 / 200, 1 / 100, 0.013])),
         # the estimator's own rate limits are rate settings too: corrections slower than the sensors must still be applied
         "mrp/dt_min_accel": float(rng.choice([1 / 200, 1 / 200, 1 / 100, 1 / 50])), "mrp/dt_min_mag": float(rng.choice([1 / 200, 1 / 200, 1 / 40, 1 / 15]))}
    # the configured magnitudes are configuration too (gravity is shared by simulator and estimator)
    if flipped and rng.random() < 0.5:
        P["mrp/dt_min_accel"], P["mrp/dt_min_mag"] = 1 / 50, 1 / 15
    # (only with the initialisation step: from a far-off start corrections twice a second converge over many minutes -- the
    #  thorough tier found a 170-degree uninitialised start still at 0.07 rad after 150 s on the unchanged tree)
    sparse_corr = init and (not flipped) and rng.random() < 0.2
    if sparse_corr:
        # sparse corrections (0.5 s / 1 s): between them the estimate rides on its own integration of the gyro alone
        P["mrp/dt_min_accel"], P["mrp/dt_min_mag"] = float(rng.choice([0.25, 0.5])), float(rng.choice([0.5, 1.0]))
    gval = float(rng.choice([9.8, 9.8, 9.81, 9.6, 10.1]))
    P["sim/g"] = gval
    P["mrp/g"] = gval
    # field strength in whatever unit the user configures (0.1: the default; 5e-5: Tesla; 45: microtesla)
    P["sim/mag_str"] = float(rng.choice([0.1, 0.1, 0.05, 0.3, 5e-5, 45.0]))
    # the order of the entries is configuration history too (parameters are set one by one before the run starts)
    keys = list(P)
    P = {k_: P[k_] for k_ in [keys[i] for i in rng.permutation(len(keys))]}
    tf = 30.0
    params = {"tf": tf, "initialize": init, "estimators": ["mrp"], "x0": np.r_[r, b], "params": P}
    # the initial state in the other forms a caller may legitimately use: the packaged default (x0 omitted: a list of Python
    # ints) and a list of ints with a non-zero entry -- integer-valued, not integer-typed: the truth must still move
    x0_form = "float_array"
    if k == 0 and ctx.shard % 8 == 6:
        # parameter values written as Python ints (the library's own defaults are: `add_param("mag_decl", 0, "f8")`)
        decl = 0.0
        P["sim/mag_decl"], P["mrp/mag_decl"] = 0, 0
        ctx.count("runs_with_int_parameter_values")
    if k == 0 and ctx.shard % 8 == 5:
        x0_form = "default" if ctx.shard % 16 == 5 else "int_list"
        if x0_form == "default":
            del params["x0"]
            r, b = np.zeros(3), np.zeros(3)
        else:
            params["x0"] = [0, 0, 1, 0, 0, 0]
            r, b = np.array([0.0, 0.0, 1.0]), np.zeros(3)
        if steep:  # convergence is claimed for these runs: keep the inclination inside the claimed range
            incl = float(np.clip(incl, -1.0, 1.0))
            P["sim/mag_incl"] = incl
        flipped = steep = False
        ctx.count("runs_with_x0_form:" + x0_form)
    case = {"x0": np.r_[r, b], "initialize": init, "x0_form": x0_form, **P}
    g_cfg, mag_str = 9.8, 0.1  # simulator parameter defaults (read back from the params message below)
    events = []  # (kind) in order of occurrence
    rec = {"imu": [], "mag": [], "calls_accel": 0, "calls_mag": 0, "params": None}
    worst = {"accel_model": 0.0, "mag_model": 0.0}
    bad_calls = []

    # ---- recording proxies around the simulator's sensor functions (call boundary)
    orig_eqs = launch.eqs
    sim = dict(orig_eqs["sim"])

    def wrap_accel(f):
        def g(x, gg, std, w):
            y = f(x, gg, std, w)
            rec["calls_accel"] += 1
            xv = np.array(x, dtype=float).ravel()
            R = O.mrp_to_R(xv[:3])
            ref = R.T @ np.array([0, 0, -float(gg)]) + np.array(w, dtype=float).ravel() * float(std)
            e = np.abs(np.array(y, dtype=float).ravel() - ref).max() / max(1.0, float(gg))
            worst["accel_model"] = max(worst["accel_model"], e if np.isfinite(e) else np.inf)
            if not e <= 1e-9 and len(bad_calls) < 3:
                bad_calls.append(("accel", xv.tolist(), np.array(y).ravel().tolist(), ref.tolist()))
            return y
        return g

    def wrap_mag(f):
        def g(x, strength, d, i, std, w):
            y = f(x, strength, d, i, std, w)
            rec["calls_mag"] += 1
            xv = np.array(x, dtype=float).ravel()
            R = O.mrp_to_R(xv[:3])
            Bn = float(strength) * (O.Rz(np.array(float(d))) @ O.Ry(np.array(-float(i))) @ np.array([1.0, 0, 0]))
            ref = R.T @ Bn + np.array(w, dtype=float).ravel() * float(std)
            e = np.abs(np.array(y, dtype=float).ravel() - ref).max() / max(1e-12, float(strength))
            worst["mag_model"] = max(worst["mag_model"], e if np.isfinite(e) else np.inf)
            if not e <= 1e-9 and len(bad_calls) < 3:
                bad_calls.append(("mag", xv.tolist(), np.array(y).ravel().tolist(), ref.tolist()))
            return y
        return g

    sim["measure_accel"] = wrap_accel(sim["measure_accel"])
    sim["measure_mag"] = wrap_mag(sim["measure_mag"])
    launch.eqs = {**orig_eqs, "sim": sim}

    # ---- subscribers on the bus, registered just before the logger locks the graph
    OrigLogger = uros.Logger

    class MonLogger(OrigLogger):
        def __init__(self, core):
            def cb_imu(m):
                events.append("I")
                rec["imu"].append((float(m.data["time"]), np.array(m.data["accel"], dtype=float).copy(), np.array(m.data["gyro"], dtype=float).copy()))

            def cb_mag(m):
                events.append("M")
                rec["mag"].append((float(m.data["time"]), np.array(m.data["mag"], dtype=float).copy()))

            def cb_att(m):
                events.append("A")
                rec.setdefault("att", {})[float(m.data["time"])] = np.array(m.data["q"], dtype=float).copy()

            def cb_est(m):
                events.append("E")

            def cb_par(m):
                rec["params"] = {n: m.data[n] for n in m.data.dtype.names}

            uros.Subscriber(core, "imu", msgs.Imu, cb_imu)
            uros.Subscriber(core, "mag", msgs.Mag, cb_mag)
            uros.Subscriber(core, "sim_attitude", msgs.Attitude, cb_att)
            uros.Subscriber(core, "mrp_attitude", msgs.Attitude, cb_est)
            uros.Subscriber(core, "params", msgs.Params, cb_par)
            super().__init__(core)

        def run(self):
            for step in super().run():
                events.append("L")
                yield step

    uros.Logger = MonLogger
    log = None
    exc = None
    try:
        with contextlib.redirect_stdout(io.StringIO()):
            log = launch.launch_sim(params)
    except Exception as e:
        exc = (type(e).__name__, str(e)[:300], traceback.format_exc().strip().splitlines()[-3:])
    finally:
        uros.Logger = OrigLogger
        launch.eqs = orig_eqs

    ctx.distinct(np.r_[r, b, float(init), incl, decl, P["sim/dt_sim"], P["sim/dt_imu"], P["sim/dt_mag"], P["logger/dt"]][None, :])
    ctx.check("no_exception", "launch_sim", exc is None, {"case": case, "exception": exc})
    if exc is not None or log is None:
        return
    # the configured values are the reference (not what the parameter message carries: a value that never reaches the nodes
    # would otherwise go unnoticed); the last parameter message must carry every configured value
    g_cfg, mag_str = P["sim/g"], P["sim/mag_str"]
    if rec["params"]:
        wrong = {k_: (float(rec["params"][k_]), v) for k_, v in P.items() if k_ in rec["params"] and isinstance(v, float) and float(rec["params"][k_]) != v}
        ctx.check("parameter_message_carries_configuration", "params", not wrong, {"case": case, "published_vs_configured": wrong, "order": list(P)})
    # publication and logging periods as configured (the simulator publishes on the first simulation step at or after the period)
    def period_ok(stamps, dt_cfg, dt_step):
        if len(stamps) < 5:
            return True, None
        d = np.diff(np.asarray(stamps))
        want = np.ceil((dt_cfg - 1e-3) / dt_step - 1e-9) * dt_step if dt_step else dt_cfg
        want = max(want, dt_step or 0.0)
        return bool(np.abs(np.median(d) - want) <= 1e-6 + 0.02 * want), (float(np.median(d)), float(want))
    for kind_, stamps, key_ in (("imu", [t_ for t_, _, _ in rec["imu"]], "sim/dt_imu"), ("mag", [t_ for t_, _ in rec["mag"]], "sim/dt_mag")):
        okp, det = period_ok(stamps, P[key_], P["sim/dt_sim"])
        ctx.check("publication_period_as_configured", kind_, okp, {"case": case, "median_period_and_expected": det, "order": list(P)})
    okp, det = period_ok(log["time"], P["logger/dt"], 0.0)
    ctx.check("log_period_as_configured", "logger", okp, {"case": case, "median_period_and_expected": det, "order": list(P)})
    ctx.count("runs")
    if flipped:
        ctx.count("upside_down_starts")
    ctx.count("events", len(events))
    ctx.count("imu_messages", len(rec["imu"]))
    ctx.count("mag_messages", len(rec["mag"]))
    ctx.count("sensor_model_calls", rec["calls_accel"] + rec["calls_mag"])
    sig = "".join(events[:400])
    ctx.cell("interleavings", "%d:%s" % (len(set(events)), hash(sig) & 0xFFFFFFFF))
    ctx.cell("interleaving_prefix_64", sig[:64])
    # ---- sensor model at the call boundary
    ctx.check_array("accelerometer_rotates_with_truth", "measure_accel", [worst["accel_model"]], 1e-9, {"x0": case["x0"][None, :]}, extra={"bad_calls": [str(bad_calls)[:600]]})
    ctx.check_array("magnetometer_rotates_with_truth", "measure_mag", [worst["mag_model"]], 1e-9, {"x0": case["x0"][None, :]}, extra={"bad_calls": [str(bad_calls)[:600]]})
    # ---- message level: configured magnitudes
    if rec["imu"]:
        an = np.array([np.linalg.norm(a) for _, a, _ in rec["imu"]])
        ctx.check_array("accelerometer_magnitude_is_g", "imu", np.abs(an - g_cfg) / g_cfg, 1e-9, {"t": np.array([t for t, _, _ in rec["imu"]])})
    if rec["mag"]:
        mn = np.array([np.linalg.norm(m) for _, m in rec["mag"]])
        ctx.check_array("magnetometer_magnitude_is_configured", "mag", np.abs(mn - mag_str) / mag_str, 1e-9, {"t": np.array([t for t, _ in rec["mag"]])})
    # ---- message level: a sensor message and the truth message carrying the same time stamp describe the same instant
    att = rec.get("att", {})
    Bn_cfg = mag_str * (O.Rz(np.array(decl)) @ O.Ry(np.array(-incl)) @ np.array([1.0, 0, 0]))
    ea = [np.abs(a - O.quat_to_R(att[t]).T @ np.array([0, 0, -g_cfg])).max() / g_cfg for t, a, _ in rec["imu"] if t in att]
    em = [np.abs(m_ - O.quat_to_R(att[t]).T @ Bn_cfg).max() / mag_str for t, m_ in rec["mag"] if t in att]
    if ea:
        ctx.check_array("accelerometer_matches_same_stamp_truth", "imu", ea, 1e-9, {"index": np.arange(len(ea))})
    if em:
        ctx.check_array("magnetometer_matches_same_stamp_truth", "mag", em, 1e-9, {"index": np.arange(len(em))})
    ctx.count("same_stamp_pairs", len(ea) + len(em))
    ctx.require("accelerometer_magnitude_is_g:imu")
    ctx.require("magnetometer_magnitude_is_configured:mag")
    # ---- offline checker over the returned log
    t = log["time"]
    qs, qe = log["sim_attitude"]["q"], log["mrp_attitude"]["q"]
    bs, be = log["sim_attitude"]["b"], log["mrp_attitude"]["b"]
    ctx.check("log_time_non_decreasing", "logger", bool(np.all(np.diff(t) >= 0)), {"case": case})
    have = ~np.isnan(qe).any(axis=1)
    late = t > 15.0  # hard starts (estimator at zero, truth ~180 degrees away) need ~10 s; 15 s leaves headroom
    # the estimator publishes (initialised) well before the end of the transient
    ctx.check("estimator_publishes", "mrp_attitude", bool(have[t > 2.0].all()) and bool((t > 2.0).any()), {"case": case, "first_estimate_time": float(t[have][0]) if have.any() else None})
    if not (have & late).any():
        return
    if steep:
        ctx.count("steep_inclination_runs")
        ctx.skip("convergence_not_claimed_beyond_1rad_inclination")
        ctx.check("no_nan_once_publishing", "log", bool(have[t > 2.0].all()), {"case": case})
        return
    err = quat_angle(qs, qe)
    m = have & late
    nan_rows = int(np.isnan(err[m]).sum() + np.isnan(be[m]).any(axis=1).sum())
    ctx.check("no_nan_after_transient", "log", nan_rows == 0, {"case": case, "nan_rows": nan_rows})
    emax, bend, ref_mid = convergence(t, qs, qe, bs, be, 15.0, tf)
    horizon = tf
    slow = (not emax <= 0.05) or any(not bend[i] <= max(0.8 * ref_mid[i], 0.01) for i in range(3))
    if slow:
        # The property fixes no transient length.  From an upside-down start with the estimator at zero and corrections
        # rate-limited to 50 Hz the correct estimator needs ~60 s (the bias estimate is thrown off by ~3 rad/s during the
        # flip and decays with a ~40 s time constant) -- so a run that has not converged after 30 s is not yet a
        # violation: the same case is re-run for 150 s and decided on (100 s, 150 s].
        if ESCALATIONS["n"] >= 3:
            ctx.skip("slow_run_not_escalated")
            return
        ESCALATIONS["n"] += 1
        ctx.count("escalated_runs")
        long_tf = 150.0
        try:
            with contextlib.redirect_stdout(io.StringIO()):
                log2 = launch.launch_sim({**params, "tf": long_tf})
        except Exception as e:
            ctx.check("no_exception", "launch_sim", False, {"case": case, "exception": (type(e).__name__, str(e)[:300]), "tf": long_tf})
            return
        t2 = log2["time"]
        emax, bend, ref_mid = convergence(t2, log2["sim_attitude"]["q"], log2["mrp_attitude"]["q"], log2["sim_attitude"]["b"], log2["mrp_attitude"]["b"], 100.0, long_tf)
        horizon = long_tf
        ctx.note("escalated_run%d" % k, {"case": {k_: (v.tolist() if hasattr(v, "tolist") else v) for k_, v in case.items()}, "max_att_err_100_150s": emax, "bias_err_end": bend.tolist()})
    if os.environ.get("VERIF_C12_DUMP"):
        with open(os.environ["VERIF_C12_DUMP"], "a") as fh:
            fh.write(json.dumps({"emax": emax, "horizon": horizon, "shard": ctx.shard, "k": k, "case": {k_: (v_.tolist() if hasattr(v_, "tolist") else v_) for k_, v_ in case.items()}}) + "\n")
    ctx.check_array("attitude_error_after_transient", "log", [emax], 0.05, {"x0": case["x0"][None, :], "initialize": [float(init)], "incl": [incl], "decl": [decl],
                                                                           "dt_imu": [P["sim/dt_imu"]], "dt_mag": [P["sim/dt_mag"]], "dt_sim": [P["sim/dt_sim"]],
                                                                           "dt_min_accel": [P["mrp/dt_min_accel"]], "dt_min_mag": [P["mrp/dt_min_mag"]], "horizon": [horizon]})
    # bounded-progress restatement of "all three bias components approach the true bias": over the last 2 s every
    # component is either within 0.01 rad/s of the truth or at most 80 % of what it was around 12-18 s.
    # (The first version compared with the *initial* error; from a 179-degree start the bias estimate first
    # overshoots to twice its initial error and then converges -- the thorough tier alarmed on that correct behaviour.)
    if np.isfinite(bend).all():
        for i, axn in enumerate("xyz"):
            ctx.check_array("gyro_bias_approaches_truth", "component_" + axn, [bend[i]], max(0.8 * ref_mid[i], 0.01),
                            {"x0": case["x0"][None, :], "initialize": [float(init)], "bias_error_end": bend[None, :], "bias_error_mid": ref_mid[None, :], "bias_true": b[None, :], "horizon": [horizon]})
    st = log["mrp_status"]
    acc_codes = st["accel_ret"][~np.isnan(st["accel_ret"])]
    mag_codes = st["mag_ret"][~np.isnan(st["mag_ret"])]
    ctx.note("run%d" % k, {"max_att_err_after_10s": emax, "bias_err_end": bend.tolist(), "events": len(events),
                           "accel_accepted_frac": float((acc_codes == 0).mean()) if len(acc_codes) else None,
                           "mag_accepted_frac": float((mag_codes == 0).mean()) if len(mag_codes) else None})
    ctx.sample({"run": case, "max_attitude_error_after_10s": emax, "bias_error_end": bend, "event_prefix": sig[:48]})
