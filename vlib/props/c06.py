"""C06 -- small-angle handling is singularity-free, accurate (1e-9 vs a 50-digit oracle) and
differentiable (AD Jacobians finite at and around zero)."""
from __future__ import annotations

import numpy as np
import casadi as ca

from .. import oracles as O
from ..caseval import Ev
from ..groups import base_specs, SO3Spec, SE3Spec, SE23Spec, SE2Spec, SO2Spec, RnSpec, SO3S
from .lie_common import lib_call, euler_ok
from .c04 import oracle_ad

mp = O.mp
PI = np.pi
SHARDS = {"quick": 16, "thorough": 16}
TIMEOUT = {"quick": 900, "thorough": 6 * 3600}
REQUIRED_REACH = ['taylor_series_near_zero', 'SO3QuatLieGroup.log', 'SO3MrpLieGroup.exp', 'SE2LieGroup.log', 'SE3LieAlgebra.left_Q', 'SE23LieGroup.calculate_N', 'SE23LieGroup.log']
RULE = ("rotation magnitudes theta on a log grid from 1e-320 to 1 plus exactly 0 and 5e-324, plus the two adjacent doubles on "
        "each side of every comparison node of the function under test found by bisection in theta (switches at theta~1e-3, "
        "0.0316, 0.0632), on random axes with translations in [-1,1]; reference = mpmath at 50 digits (matrix exponential by "
        "scaling/squaring + Taylor, Jacobians by sum ad^k/(k+1)! and mp inverses, closed-form coefficients with exact limits); "
        "AD: casadi.jacobian of every output w.r.t. its input evaluated at theta in {0, 5e-324, 1e-200, 1e-20, 1e-9} and on both "
        "sides of each switch must be finite; non-trivial = theta > 0; distinct = hashed input vectors")
ASSUMPTIONS = ["mpmath at 50 digits is exact for this purpose", "absolute bound 1e-9 applies to O(1) translational inputs, as stated"]
TOL = 1e-9


def theta_grid(n):
    g = np.concatenate([[0.0, 5e-324, 1e-320, 1e-310], np.logspace(-300, -12, max(4, n // 6)), np.logspace(-12, 0, n)])
    return np.unique(np.clip(g, 0, 1.0))


AD_THETAS = np.array([0.0, 5e-324, 1e-200, 1e-20, 1e-9, 1e-5])


def closed_form_dps(theta):
    """closed forms like (x^2 + x sin x + 4 cos x - 4)/(2 x^6) cancel ~6*log10(1/x) digits"""
    if theta <= 0:
        return 60
    return 60 + int(7.0 * max(0.0, -np.log10(theta)))


def mpm(M):
    return mp.matrix(np.asarray(M, dtype=float).tolist())


# ------------------------------------------------------------------ generic machinery
def bracket_thetas(ev, make_inputs, lo=1e-6, hi=0.9, iters=200):
    """both adjacent doubles around every predicate switch of ev along theta -> sorted list of pairs"""
    def preds(th):
        _, pr = ev(*make_inputs(np.array([th])))
        return pr[0]

    pl, ph = preds(lo), preds(hi)
    pairs = []
    for k in np.nonzero(pl != ph)[0]:
        a, b = lo, hi
        va = pl[k]
        for _ in range(iters):
            m = 0.5 * (a + b)
            if m == a or m == b:
                break
            if preds(m)[k] == va:
                a = m
            else:
                b = m
        pairs.append((a, b))
    # de-duplicate
    out = []
    for p in pairs:
        if not any(abs(p[0] - q[0]) <= 4 * np.spacing(p[0]) for q in out):
            out.append(p)
    return out


def compare(ctx, sub, site, ev, make_inputs, ref_fn, thetas, pairs, axis_info, out_index=0, post=None):
    """evaluate ev on thetas (+ switch brackets), compare output out_index with ref_fn(theta) (mp -> numpy)"""
    ths = np.concatenate([thetas, np.array([t for p in pairs for t in p])]) if pairs else thetas
    ins = make_inputs(ths)
    outs, pr = ev(*ins)
    ctx.cells_from(sub + ":" + site, pr)
    V = outs[out_index]
    if post is not None:
        V = post(V)
    fin = np.isfinite(V).all(axis=(1, 2))
    ctx.check_array(sub + "_finite", site, (~fin).astype(float), 0.5, {"theta": ths, **axis_info(ths)})
    err = np.empty(len(ths))
    for i, th in enumerate(ths):
        ref = ref_fn(i, th, ins)
        err[i] = np.abs(V[i] - ref).max() if fin[i] else np.inf
    cells = np.where(ths == 0, "theta=0", np.where(ths < 1e-3, "theta<1e-3", "theta>=1e-3"))
    ctx.check_array(sub + "_accuracy", site, err, TOL, {"theta": ths, **axis_info(ths)})
    # jump across each switch
    n0 = len(thetas)
    for j, (a, b) in enumerate(pairs):
        ja, jb = n0 + 2 * j, n0 + 2 * j + 1
        jump = np.abs(V[ja] - V[jb]).max() if fin[ja] and fin[jb] else np.inf
        ctx.check_array(sub + "_switch_jump", site, [jump], TOL, {"theta_below": [a], "theta_above": [b]})
    ctx.count("switch_pairs:" + sub + ":" + site, len(pairs))
    ctx.distinct(np.concatenate([np.atleast_2d(x).reshape(len(ths), -1) for x in ins], axis=1), ths > 0)
    return ths


def ad_finite(ctx, sub, site, inputs, outputs, make_inputs, pairs):
    """casadi AD Jacobian of all outputs w.r.t. all inputs finite at/around zero"""
    xs = ca.vertcat(*[ca.vec(i) for i in inputs])
    ys = ca.vertcat(*[ca.vec(ca.densify(o)) for o in outputs])
    J = lib_call(ctx, sub + "_ad_build", site, lambda: ca.jacobian(ys, xs))
    if J is None:
        return
    ev = Ev("ad", inputs, [J], probe=False)
    ths = np.concatenate([AD_THETAS, np.array([t for p in pairs for t in p])]) if pairs else AD_THETAS
    ins = make_inputs(ths)
    (Jv,), _ = ev(*ins)
    fin = np.isfinite(Jv).all(axis=(1, 2))
    cells = np.where(ths == 0, "theta=0", np.where(ths <= 1e-8, "0<theta<=1e-8", "theta>1e-8"))
    flat = {"theta": ths, "inputs": np.concatenate([np.atleast_2d(x).reshape(len(ths), -1) for x in ins], axis=1)}
    ctx.check_array(sub + "_ad_finite", site, (~fin).astype(float), 0.5, flat)


# ------------------------------------------------------------------ per configuration
def hat_mp(spec, x):
    return mpm(spec.hat(np.asarray(x)[None, :])[0])


def run(ctx):
    nth = 90 if ctx.quick else 1200
    naxes = 3 if ctx.quick else 8
    specs = [s for s in base_specs() if not isinstance(s, RnSpec) and not isinstance(s, SO2Spec)]
    units = []
    for s in specs:
        units.append(("exp_log", s))
    for name in ("so3", "se3", "se23"):
        units.append(("jac", name))
    units.append(("calcN", None))
    units.append(("conv_ad", None))
    mp.mp.dps = 50
    thetas = theta_grid(nth)
    for i, (kind, arg) in enumerate(units):
        if i % ctx.nshards != ctx.shard:
            continue
        if kind == "exp_log":
            for k in range(naxes):
                exp_log_config(ctx, arg, thetas, k)
        elif kind == "jac":
            for k in range(naxes if arg != "se23" else max(1, naxes // 2)):
                jac_config(ctx, arg, thetas if arg != "se23" or not ctx.quick else thetas[::2], k)
        elif kind == "series":
            series_entries(ctx, theta_grid(nth * 3))
        elif kind == "calcN":
            for k in range(naxes):
                calcN(ctx, thetas, k)
        elif kind == "conv_ad":
            conversions_ad(ctx)
            numeric_small_components(ctx, specs, 30 if ctx.quick else 600)
            # the group-level (quaternion / MRP) kinematic Jacobians are Jacobians too: exact at every rotation magnitude,
            # including the small ones (oracle shared with C05)
            from .c05 import group_jacobians
            group_jacobians(ctx, 4000 if ctx.quick else 100000)


def numeric_small_components(ctx, specs, n):
    """the numeric (DM) call path: rotation vectors of magnitude 1e-3..1 rad one of whose components (or translations) is
    1e-10..1e-6 -- "small" is about the rotation magnitude, every component still counts to 1e-9 (tolerance-based clean-ups
    of numeric matrices only act on constants, never on the symbolic path the other sub-checks evaluate)"""
    rng = ctx.rng("c06:numeric_small")
    for spec in specs:
        try:
            G = spec.lib()
        except Exception:
            continue
        X = spec.alg_rand(rng, n, hi=1.0, thi=1.0, tlo=1e-3)
        X = X[spec.alg_angle(X) <= 1.0]
        if not len(X):
            continue
        for k in range(len(X)):
            j = int(rng.integers(0, spec.na))
            X[k, j] = float(rng.choice([-1.0, 1.0]) * O.loguniform(rng, 1e-10, 1e-6, 1)[0])
        ref = O.expm_batch(spec.hat(X))
        err, errl = [], []
        for k in range(len(X)):
            try:
                E = G.algebra.elem(ca.DM(X[k])).exp(G)
                P = np.array(ca.DM(E.param).full()).ravel()
                err.append(float(np.abs(spec.mat(P[None, :])[0] - ref[k]).max()) if np.isfinite(P).all() else np.inf)
                Lg = np.array(ca.DM(G.elem(ca.DM(P)).log().param).full()).ravel()
                errl.append(float(np.abs(Lg - X[k]).max()) if np.isfinite(Lg).all() else np.inf)
            except NotImplementedError:
                break
        if err:
            m = len(err)
            ctx.check_array("numeric_exp_accuracy", spec.name, err, TOL * spec.alg_scale(X[:m]), {"x": X[:m]})
            ctx.check_array("numeric_log_exp_accuracy", spec.name, errl, TOL * spec.alg_scale(X[:m]), {"x": X[:m]})


def axis_and_trans(ctx, spec, k, tag):
    rng = ctx.rng("c06:%s:%s:%d" % (tag, spec.name if hasattr(spec, "name") else spec, k))
    axis = O.random_axes(rng, 1)[0]
    if k == 0:
        axis = np.array([1.0, 0, 0])
    if k == 1:
        axis = np.array([-1.0, 0, 0])
    nt = spec.na - (3 if spec.has_rotation else 1)
    T = rng.uniform(-1, 1, nt)
    return axis, T


def alg_vec(spec, axis, T, ths):
    ths = np.asarray(ths, dtype=float)
    if isinstance(spec, SE2Spec):
        # axis[0] carries the sense of rotation for the planar group: both signs are exercised
        sgn = 1.0 if axis[0] >= 0 else -1.0
        return np.concatenate([np.tile(T, (len(ths), 1)), sgn * ths[:, None]], axis=1)
    return np.concatenate([np.tile(T, (len(ths), 1)), axis[None, :] * ths[:, None]], axis=1)


def oracle_element(spec, X):
    """group parameters of exp(x) by the oracle's own accurate double-precision formulas"""
    if isinstance(spec, SE2Spec):
        th = X[:, 2]
        small = np.abs(th) < 1e-2
        ts = np.where(small, 1.0, th)
        a = np.where(small, 1 - th**2 / 6 + th**4 / 120, np.sin(ts) / ts)
        b = np.where(small, th / 2 - th**3 / 24 + th**5 / 720, (1 - np.cos(ts)) / ts)
        p = np.stack([a * X[:, 0] - b * X[:, 1], b * X[:, 0] + a * X[:, 1]], axis=1)
        return np.concatenate([p, th[:, None]], axis=1)
    w = X[:, -3:]
    th = np.linalg.norm(w, axis=1)
    axis = np.where(th[:, None] > 0, w / np.where(th > 0, th, 1)[:, None], np.array([1.0, 0, 0]))
    so3 = spec if isinstance(spec, SO3Spec) else spec.so3
    R = so3.from_axang(axis, th, np.random.default_rng(0), canonical=True)
    if isinstance(spec, SO3Spec):
        return R
    Jl = O.so3_left_jac(w)
    if isinstance(spec, SE3Spec):
        return np.concatenate([np.einsum("nij,nj->ni", Jl, X[:, :3]), R], axis=1)
    # SE23: algebra (v_b, a_b, w) -> group (p, v, R): p from v_b, v from a_b
    return np.concatenate([np.einsum("nij,nj->ni", Jl, X[:, :3]), np.einsum("nij,nj->ni", Jl, X[:, 3:6]), R], axis=1)


def exp_log_config(ctx, spec, thetas, k):
    name = spec.name
    G = lib_call(ctx, "lib", name, spec.lib)
    if G is None:
        return
    axis, T = axis_and_trans(ctx, spec, k, "explog")
    if isinstance(spec, SO3Spec) and spec.kind == "euler" or (getattr(spec, "so3", None) is not None and spec.so3.kind == "euler"):
        pass  # rotations <= 1 rad are far from gimbal lock (pitch <= 1 rad)
    x = ca.SX.sym("x", spec.na)
    a = ca.SX.sym("a", spec.n)
    mk = lambda ths: [alg_vec(spec, axis, T, ths)]
    info = lambda ths: {"axis": np.tile(axis, (len(ths), 1)), "trans": np.tile(T, (len(ths), 1))}
    # ---- exp
    ev = lib_call(ctx, "exp", name, lambda: Ev("exp", [x], [G.algebra.elem(x).exp(G).param]))
    if ev is not None:
        pairs = bracket_thetas(ev, mk)
        cache = {}

        def ref(i, th, ins):
            key = float(th)
            if key not in cache:
                cache[key] = O.mp_to_np(O.mp_expm_series(hat_mp(spec, ins[0][i])))
            return cache[key]

        compare(ctx, "exp", name, ev, mk, ref, thetas, pairs, info, post=lambda P: spec.mat(P[:, :, 0]))
        ad_finite(ctx, "exp", name, [x], [G.algebra.elem(x).exp(G).param], mk, pairs)
    # ---- log (elements produced by the oracle)
    mke = lambda ths: [oracle_element(spec, alg_vec(spec, axis, T, ths))]
    evl = lib_call(ctx, "log", name, lambda: Ev("log", [a], [G.elem(a).log().param]))
    if evl is not None:
        pairs = bracket_thetas(evl, mke)
        compare(ctx, "log", name, evl, mke, lambda i, th, ins: alg_vec(spec, axis, T, [th])[0][:, None], thetas, pairs, info)
        ad_finite(ctx, "log", name, [a], [G.elem(a).log().param], mke, pairs)
        kind = spec.kind if isinstance(spec, SO3Spec) else getattr(getattr(spec, "so3", None), "kind", None)
        if kind == "quat":
            # the other unit quaternion of the same element (-q: what products return once the accumulated rotation
            # has passed half a turn) -- same rotation magnitude, same exact log
            def mke_neg(ths):
                E = oracle_element(spec, alg_vec(spec, axis, T, ths)).copy()
                E[:, -4:] = -E[:, -4:]
                return [E]
            compare(ctx, "log_negated_quaternion", name, evl, mke_neg, lambda i, th, ins: alg_vec(spec, axis, T, [th])[0][:, None], thetas, bracket_thetas(evl, mke_neg), info)
        # self-check of the oracle's element formulas against mp (so that a wrong oracle cannot hide behind 'log')
        for th in (0.0, 1e-7, 1e-3, 0.3, 1.0):
            Xv = alg_vec(spec, axis, T, [th])
            M = spec.mat(oracle_element(spec, Xv))[0]
            e = np.abs(M - O.mp_to_np(O.mp_expm_series(hat_mp(spec, Xv[0])))).max()
            ctx.check_array("oracle_selfcheck", name, [e], 1e-13, {"theta": [th]})
    # ---- log(exp(x)) composed
    evc = lib_call(ctx, "log_exp", name, lambda: Ev("logexp", [x], [G.algebra.elem(x).exp(G).log().param]))
    if evc is not None:
        pairs = bracket_thetas(evc, mk)
        compare(ctx, "log_exp", name, evc, mk, lambda i, th, ins: ins[0][i][:, None], thetas, pairs, info)
        ad_finite(ctx, "log_exp", name, [x], [G.algebra.elem(x).exp(G).log().param], mk, pairs)
    ctx.sample({"config": name, "axis": axis, "trans": T, "thetas": [float(t) for t in thetas[:6]]})


def jac_config(ctx, name, thetas, k):
    import cyecca.lie as L
    spec = {"so3": SO3S["quat"], "se3": SE3Spec(SO3S["quat"]), "se23": SE23Spec(SO3S["quat"])}[name]
    alg = getattr(L, name)
    axis, T = axis_and_trans(ctx, spec, k, "jac")
    x = ca.SX.sym("x", spec.na)
    el = alg.elem(x)
    names = ["left_jacobian", "right_jacobian", "left_jacobian_inv", "right_jacobian_inv"]
    outs = lib_call(ctx, "jacobians", name, lambda: [getattr(el, n)() for n in names])
    if outs is None:
        return
    if name == "se3":
        q = lib_call(ctx, "Q", name, lambda: [el.left_Q(), el.right_Q()])
        if q:
            outs = outs + q
            names = names + ["left_Q", "right_Q"]
    ev = Ev("J", [x], outs)
    mk = lambda ths: [alg_vec(spec, axis, T, ths)]
    info = lambda ths: {"axis": np.tile(axis, (len(ths), 1)), "trans": np.tile(T, (len(ths), 1))}
    pairs = bracket_thetas(ev, mk)
    cache = {}

    def refs(i, th, ins):
        key = float(th)
        if key not in cache:
            A = mpm(oracle_ad(spec, ins[0][i][None, :])[0])
            Jl = O.mp_jac_series(A, +1)
            Jr = O.mp_jac_series(A, -1)
            d = {"left_jacobian": O.mp_to_np(Jl), "right_jacobian": O.mp_to_np(Jr),
                 "left_jacobian_inv": O.mp_to_np(Jl ** -1), "right_jacobian_inv": O.mp_to_np(Jr ** -1)}
            d["left_Q"] = d["left_jacobian"][:3, 3:6] if spec.na >= 6 else None
            d["right_Q"] = d["right_jacobian"][:3, 3:6] if spec.na >= 6 else None
            cache[key] = d
        return cache[key]

    for j, n in enumerate(names):
        compare(ctx, n, name, ev, mk, lambda i, th, ins, n=n: refs(i, th, ins)[n], thetas, pairs, info, out_index=j)
    ad_finite(ctx, "jacobians", name, [x], outs, mk, pairs)
    ctx.sample({"algebra": name, "axis": axis, "trans": T})


SERIES_MP = {
    "cos(x)": (lambda x: mp.cos(x), 1),
    "sin(x)/x": (lambda x: mp.sin(x) / x, 1),
    "x/sin(x)": (lambda x: x / mp.sin(x), 1),
    "(1 - cos(x))/x": (lambda x: (1 - mp.cos(x)) / x, 0),
    "(1 - cos(x))/x^2": (lambda x: (1 - mp.cos(x)) / x**2, mp.mpf(1) / 2),
    "(x - sin(x))/x^3": (lambda x: (x - mp.sin(x)) / x**3, mp.mpf(1) / 6),
    "(1 - x*sin(x)/(2*(1 - cos(x))))/x^2": (lambda x: (1 - x * mp.sin(x) / (2 * (1 - mp.cos(x)))) / x**2, mp.mpf(1) / 12),
    "(-x^2/2 - cos(x) + 1)/x^2": (lambda x: (-x**2 / 2 - mp.cos(x) + 1) / x**2, 0),
    "(x^2/2 + cos(x) - 1)/x^4": (lambda x: (x**2 / 2 + mp.cos(x) - 1) / x**4, mp.mpf(1) / 24),
    "1/x^2 + sin(x)/(2 x (cos(x) - 1))": (lambda x: 1 / x**2 + mp.sin(x) / (2 * x * (mp.cos(x) - 1)), mp.mpf(1) / 12),
    "(x^2 + 2 cos(x) - 2)/(2 x^4)": (lambda x: (x**2 + 2 * mp.cos(x) - 2) / (2 * x**4), mp.mpf(1) / 24),
    "(x cos(x) + 2 x - 3 sin(x))/(2 x^5)": (lambda x: (x * mp.cos(x) + 2 * x - 3 * mp.sin(x)) / (2 * x**5), mp.mpf(1) / 120),
    "(x^2 + x sin(x) + 4 cos(x) - 4)/(2 x^6)": (lambda x: (x**2 + x * mp.sin(x) + 4 * mp.cos(x) - 4) / (2 * x**6), mp.mpf(1) / 720),
    "(2 - 2 cos(x) - x sin(x))/(2 x^4))": (lambda x: (2 - 2 * mp.cos(x) - x * mp.sin(x)) / (2 * x**4), mp.mpf(1) / 24),
    "tan(x/4)/x": (lambda x: mp.tan(x / 4) / x, mp.mpf(1) / 4),
    "4 atan(x)/x": (lambda x: 4 * mp.atan(x) / x, 4),
}


def series_entries(ctx, thetas):
    """the coefficient table itself: SERIES[k](x) and SQUARED_SERIES[k](x^2) against mp closed forms"""
    from cyecca.symbolic import SERIES, SQUARED_SERIES
    for key, (f, lim) in SERIES_MP.items():
        for table, tname, arg in ((SERIES, "plain", lambda t: t), (SQUARED_SERIES, "squared", lambda t: t * t)):
            if key not in table:
                ctx.count("series_entry_absent:" + tname + ":" + key)
                continue
            F = table[key]
            xs = thetas
            # switch of this table entry in its own argument u: |u| < eps -> bisect in theta
            u = ca.SX.sym("u")
            ev = Ev("s", [u], [F(u)])
            mk = lambda ths: [arg(np.asarray(ths))[:, None]]
            pairs = bracket_thetas(ev, mk)
            ths = np.concatenate([xs, np.array([t for p in pairs for t in p])]) if pairs else xs
            (V,), pr = ev(*mk(ths))
            ctx.cells_from("series:" + tname, pr)
            err = np.empty(len(ths))
            for i, t in enumerate(ths):
                with mp.workdps(closed_form_dps(float(t))):
                    uu = mp.mpf(float(arg(t)))  # the double the library actually receives
                    tt = uu if tname == "plain" else mp.sqrt(uu)
                    ref = +(lim if tt == 0 else f(tt))
                err[i] = abs(float(mp.mpf(float(V[i, 0, 0])) - ref)) if np.isfinite(V[i, 0, 0]) else np.inf
            ctx.check_array("series_accuracy", tname + ":" + key, err, TOL, {"theta": ths})
            n0 = len(xs)
            for j, (a_, b_) in enumerate(pairs):
                ctx.check_array("series_switch_jump", tname + ":" + key, [abs(V[n0 + 2 * j, 0, 0] - V[n0 + 2 * j + 1, 0, 0])], TOL,
                                {"theta_below": [a_], "theta_above": [b_]})
            # AD of squared-argument entries at and near zero (this is why they exist)
            if tname == "squared" and key != "(1 - cos(x))/x":  # odd in x: sqrt(u)-like in u, not consumed in squared form
                dF = ca.Function("d", [u], [ca.jacobian(F(u), u)])
                pts = np.concatenate([[0.0, 5e-324, 1e-300, 1e-40, 1e-12], arg(np.array([t for p in pairs for t in p])) if pairs else []])
                d = np.array([float(dF(p)) for p in pts])
                ctx.check_array("series_ad_finite", tname + ":" + key, (~np.isfinite(d)).astype(float), 0.5, {"u": pts})
    ctx.distinct(thetas[:, None], thetas > 0)


def calcN(ctx, thetas, k):
    """coefficient handling of the closed-form N block (exact-flow property itself is C08)"""
    import cyecca.lie as L
    spec = SE23Spec(SO3S["quat"])
    rng = ctx.rng("c06:calcN:%d" % k)
    axis = O.random_axes(rng, 1)[0]
    T = rng.uniform(-1, 1, 6)
    dt = float(rng.uniform(0.1, 1.0))
    x = ca.SX.sym("x", 9)
    Bm = np.array([[0.0, dt], [0.0, 0.0]])
    out = lib_call(ctx, "calculate_N", "SE23Quat", lambda: L.SE23Quat.calculate_N(L.se23.elem(x), ca.SX(Bm)))
    if out is None:
        return
    ev = Ev("N", [x], [out])
    mk = lambda ths: [alg_vec(spec, axis, T, ths)]
    info = lambda ths: {"axis": np.tile(axis, (len(ths), 1)), "trans": np.tile(T, (len(ths), 1))}
    pairs = bracket_thetas(ev, mk)

    def ref(i, th, ins):
        v = ins[0][i]
        mp.mp.dps = closed_form_dps(float(th))
        w = [mp.mpf(float(t)) for t in v[6:]]
        t2 = sum(t * t for t in w)
        t = mp.sqrt(t2)
        Om = O.mp_hat3(w)
        A = mp.matrix([[float(v[3 + r]), float(v[r])] for r in range(3)])  # [a_b, v_b]
        B = mpm(Bm)
        if t == 0:
            C1, C2, C3 = mp.mpf(1) / 2, mp.mpf(1) / 6, mp.mpf(1) / 24
        else:
            C1 = (1 - mp.cos(t)) / t2
            C2 = (t - mp.sin(t)) / (t2 * t)
            C3 = (t2 / 2 + mp.cos(t) - 1) / (t2 * t2)
        I2 = mp.eye(2)
        N = A + A * B / 2 + Om * A * (C1 * I2 + C2 * B) + Om * Om * A * (C2 * I2 + C3 * B)
        out_ = O.mp_to_np(N)
        mp.mp.dps = 50
        return out_

    compare(ctx, "calculate_N", "SE23Quat", ev, mk, ref, thetas, pairs, info)
    ad_finite(ctx, "calculate_N", "SE23Quat", [x], [out], mk, pairs)
    if k == 0:
        # the function that consumes N: exp_mixed with arbitrary increments of magnitude <= 1 rad (5x5 expm oracle, shared with C08)
        from .c08 import general_exp_mixed
        general_exp_mixed(ctx, ctx.rng("c06:general_exp_mixed"), 1500 if ctx.quick else 40000, sub="exp_mixed_accuracy", max_angle=1.0, kinds=("quat", "mrp"))


def conversions_ad(ctx):
    """AD Jacobian of every SO(3) conversion finite at and near the identity"""
    import cyecca.lie as L
    groups = {"quat": L.SO3Quat, "mrp": L.SO3Mrp, "dcm": L.SO3Dcm, "euler": L.SO3EulerB321}
    meth = {"quat": "from_Quat", "mrp": "from_Mrp", "dcm": "from_Dcm", "euler": "from_Euler"}
    rng = ctx.rng("c06:conv")
    axis = O.random_axes(rng, 1)[0]
    for src in groups:
        s = SO3S[src]
        a = ca.SX.sym("a", s.n)
        mk = lambda ths, s=s: [s.from_axang(np.tile(axis, (len(ths), 1)), np.asarray(ths, dtype=float), rng, canonical=True)]
        for dst in groups:
            if src == dst:
                continue
            out = lib_call(ctx, "convert", "%s_from_%s" % (dst, src), lambda: getattr(groups[dst], meth[src])(groups[src].elem(a)).param)
            if out is None:
                continue
            ev = Ev("c", [a], [out])
            pairs = bracket_thetas(ev, mk)
            ad_finite(ctx, "convert", "%s_from_%s" % (dst, src), [a], [out], mk, pairs)
            # value accuracy at small angles against mp rotation matrix
            ths = np.concatenate([theta_grid(12), np.array([t for p in pairs for t in p])]) if pairs else theta_grid(12)
            (P,), _ = ev(*mk(ths))
            M = SO3S[dst].mat(P[:, :, 0])
            err = np.array([np.abs(M[i] - O.mp_to_np(O.mp_expm_series(O.mp_hat3([mp.mpf(float(axis[j])) * mp.mpf(float(ths[i])) for j in range(3)])))).max()
                            for i in range(len(ths))])
            ctx.check_array("convert_accuracy", "%s_from_%s" % (dst, src), err, TOL, {"theta": ths})
        # from_Matrix entry points
        M = ca.SX.sym("M", 3, 3)
        mkM = lambda ths: [O.rodrigues(np.tile(axis, (len(ths), 1)) * np.asarray(ths, dtype=float)[:, None])]
        out = lib_call(ctx, "convert", "%s_from_Matrix" % src, lambda: groups[src].from_Matrix(M).param)
        if out is not None:
            ev = Ev("cm", [M], [out])
            pairs = bracket_thetas(ev, mkM)
            ad_finite(ctx, "convert", "%s_from_Matrix" % src, [M], [out], mkM, pairs)
