"""C04 -- adjoint maps and brackets agree with matrix conjugation and commutators."""
from __future__ import annotations

import numpy as np
import casadi as ca

from .. import oracles as O
from ..caseval import Ev
from ..groups import base_specs, product_specs, ProductSpec, extra_euler_specs
from .lie_common import (inplace_history, sparse_param_form, lib_call, euler_ok, mrp_product_ok, algebra_corpus, group_corpus, configs_for_shard, rot_angles)

PI = np.pi
SHARDS = {"quick": 14, "thorough": 16}
REQUIRED_REACH = ['SE3LieGroup.adjoint', 'SE23LieGroup.adjoint', 'SE2LieGroup.adjoint', 'SE3LieAlgebra.adjoint', 'SE23LieAlgebra.adjoint', 'SO3LieAlgebra.bracket', 'LieAlgebraDirectProduct.adjoint', 'RnLieGroup.adjoint']
RULE = ("per group/algebra: random poses X, Y (rotation 0..pi, translations log-uniform 1e-6..10) and algebra vectors "
        "x, y, z (angle 0..2pi-0.05); Ad_X y vs vee(M(X) y^ M(X)^-1) with the oracle's matrices and a least-squares vee on the "
        "oracle's basis; ad_x y vs vee([x^,y^]); bracket antisymmetry and Jacobi; Ad_exp(x) vs expm(ad_x) (oracle ad); "
        "Ad homomorphism; non-trivial = rotation and translation parts both non-zero (where the group has both); distinct = hashed inputs")
ASSUMPTIONS = ["operations that raise NotImplementedError (Ad and bracket on direct products) are out of scope",
               "numpy/scipy oracles; CasADi VM"]
N_QUICK = 6000
N_THOROUGH = 250000


def run(ctx):
    N = N_QUICK if ctx.quick else N_THOROUGH
    cfg_rng = np.random.default_rng([ctx.seed, 104])
    specs = base_specs() + extra_euler_specs() + product_specs(cfg_rng, ctx.tier)
    for spec in configs_for_shard(specs, ctx):
        check_config(ctx, spec, N if not isinstance(spec, ProductSpec) or ctx.quick else max(1000, N // 20))
    if ctx.shard == 1 % ctx.nshards:
        inplace_history(ctx, base_specs() + product_specs(cfg_rng, "quick")[:2], 4 if ctx.quick else 40, ops=("Ad", "ad", "bracket"))
        sparse_param_form(ctx, base_specs() + product_specs(cfg_rng, "quick")[:2], ops=("Ad", "ad", "bracket"))


def oracle_ad(spec, X):
    """ad matrices from commutators with the oracle's basis: column j = vee([x^, E_j])"""
    Xh = spec.hat(X)
    B = spec.basis()
    cols = []
    for j in range(spec.na):
        C = Xh @ B[j] - B[j] @ Xh
        cols.append(spec.vee(C))
    return np.stack(cols, axis=2)


def oracle_Ad(spec, M):
    Mi = np.linalg.inv(M)
    B = spec.basis()
    cols = []
    for j in range(spec.na):
        cols.append(spec.vee(M @ B[j] @ Mi))
    return np.stack(cols, axis=2)


def check_config(ctx, spec, N):
    name = spec.name
    rng = ctx.rng("c04:" + name)
    G = lib_call(ctx, "lib", name, spec.lib)
    if G is None:
        return
    alg = G.algebra
    na = spec.na
    a, b = ca.SX.sym("a", spec.n), ca.SX.sym("b", spec.n)
    x, y, z = ca.SX.sym("x", na), ca.SX.sym("y", na), ca.SX.sym("z", na)

    A = np.concatenate([group_corpus(spec), spec.rand(rng, N, thi=10.0)])
    A = A[np.abs(A).max(axis=1) < 1e3]
    B = spec.rand(rng, len(A), thi=10.0)
    X = np.concatenate([algebra_corpus(spec), spec.alg_rand(rng, N, thi=10.0)])
    X = X[np.abs(X).max(axis=1) < 1e3]
    Y = spec.alg_rand(rng, len(X), thi=10.0)
    Z = spec.alg_rand(rng, len(X), thi=10.0)
    MA, MB = spec.mat(A), spec.mat(B)
    sA, sB = spec.scale(A), spec.scale(B)
    sX, sY, sZ = spec.alg_scale(X), spec.alg_scale(Y), spec.alg_scale(Z)
    if spec.has_rotation and spec.md > 3:
        ntA = (rot_angles(spec, MA) > 1e-6) & (np.abs(MA[:, :3, 3:]).max(axis=(1, 2)) > 0) if not isinstance(spec, ProductSpec) else rot_angles(spec, MA) > 1e-6
    else:
        ntA = np.abs(MA - np.eye(spec.md)).max(axis=(1, 2)) > 1e-6
    ctx.distinct(A, ntA)
    ctx.distinct(np.concatenate([X, Y], axis=1), (np.abs(X).max(axis=1) > 0) & (np.abs(Y).max(axis=1) > 0))

    # ---- algebra adjoint: shape, ad_x y = [x,y]
    ev_ad = lib_call(ctx, "ad", name, lambda: Ev("ad", [x], [alg.elem(x).ad()]))
    if ev_ad is not None:
        shape = ev_ad.shapes[0]
        ctx.check("ad_shape", name, shape == (na, na), {"shape": list(shape), "expected": [na, na]})
        if shape == (na, na):
            (AD,), _ = ev_ad(X)
            ref = oracle_ad(spec, X)
            err = np.abs(AD - ref).max(axis=(1, 2))
            ctx.check_array("ad_is_commutator", name, err, 1e-9 * sX, {"x": X})
    # ---- bracket (operator *) = matrix commutator; antisymmetry; Jacobi
    ev_br = lib_call(ctx, "bracket", name, lambda: Ev("br", [x, y], [(alg.elem(x) * alg.elem(y)).param, (alg.elem(y) * alg.elem(x)).param]))
    if ev_br is not None:
        (XY, YX), _ = ev_br(X, Y)
        Xh, Yh = spec.hat(X), spec.hat(Y)
        ref = spec.vee(Xh @ Yh - Yh @ Xh)
        err = np.abs(XY[:, :, 0] - ref).max(axis=1)
        ctx.check_array("bracket_is_commutator", name, err, 1e-9 * sX * sY, {"x": X, "y": Y})
        err = np.abs(XY[:, :, 0] + YX[:, :, 0]).max(axis=1)
        ctx.check_array("bracket_antisymmetric", name, err, 1e-9 * sX * sY, {"x": X, "y": Y})
        if ev_ad is not None and ev_ad.shapes[0] == (na, na):
            (AD,), _ = ev_ad(X)
            err = np.abs(np.einsum("nij,nj->ni", AD, Y) - XY[:, :, 0]).max(axis=1)
            ctx.check_array("ad_times_y_is_bracket", name, err, 1e-9 * sX * sY, {"x": X, "y": Y})
        ev_j = lib_call(ctx, "jacobi", name, lambda: Ev("jacobi_id", [x, y, z], [
            (alg.elem(x) * (alg.elem(y) * alg.elem(z)) + alg.elem(y) * (alg.elem(z) * alg.elem(x)) + alg.elem(z) * (alg.elem(x) * alg.elem(y))).param]))
        if ev_j is not None:
            (Jc,), _ = ev_j(X, Y, Z)
            err = np.abs(Jc[:, :, 0]).max(axis=1)
            ctx.check_array("jacobi", name, err, 1e-8 * sX * sY * sZ * np.maximum(1, spec.alg_angle(X)) ** 2, {"x": X, "y": Y, "z": Z})
    # ---- group adjoint
    ev_Ad = lib_call(ctx, "Ad", name, lambda: Ev("Ad", [a], [G.elem(a).Ad()]))
    if ev_Ad is not None:
        shape = ev_Ad.shapes[0]
        ctx.check("Ad_shape", name, shape == (na, na), {"shape": list(shape), "expected": [na, na]})
        if shape == (na, na):
            (AdA,), _ = ev_Ad(A)
            ref = oracle_Ad(spec, MA)
            err = np.abs(AdA - ref).max(axis=(1, 2))
            ctx.check_array("Ad_is_conjugation", name, err, 1e-9 * sA, {"X": A})
            # Ad_X y as a vector
            Yv = Y[np.arange(len(A)) % len(Y)]
            Mi = np.linalg.inv(MA)
            ref_v = spec.vee(MA @ spec.hat(Yv) @ Mi)
            err = np.abs(np.einsum("nij,nj->ni", AdA, Yv) - ref_v).max(axis=1)
            ctx.check_array("Ad_y_is_conjugated_vector", name, err, 1e-9 * sA * spec.alg_scale(Yv), {"X": A, "y": Yv})
            # homomorphism (library product; MRP/Euler domain filters as in C01)
            ok = mrp_product_ok(spec, A, B) & euler_ok(spec, MA @ MB) & euler_ok(spec, np.linalg.inv(MA))
            ev_h = lib_call(ctx, "Ad_hom", name, lambda: Ev("Adh", [a, b], [(G.elem(a) * G.elem(b)).Ad(), G.elem(a).inverse().Ad()]))
            if ev_h is not None and ok.any():
                (AdAB, AdAi), _ = ev_h(A[ok], B[ok])
                (AdB,), _ = ev_Ad(B[ok])
                err = np.abs(AdAB - AdA[ok] @ AdB).max(axis=(1, 2))
                ctx.check_array("Ad_product_homomorphism", name, err, 1e-9 * (sA[ok] * sB[ok] + sA[ok] + sB[ok]), {"X": A[ok], "Y": B[ok]})
                err = np.abs(AdAi @ AdA[ok] - np.eye(na)).max(axis=(1, 2))
                ctx.check_array("Ad_inverse", name, err, 1e-9 * sA[ok] ** 2, {"X": A[ok]})
            # Ad_exp(x) = expm(ad_x)
            ev_e = lib_call(ctx, "Ad_exp", name, lambda: Ev("Ade", [x], [alg.elem(x).exp(G).Ad()]))
            if ev_e is not None:
                refE = O.expm_batch(spec.hat(X))
                okE = euler_ok(spec, refE)
                (AdE,), _ = ev_e(X[okE])
                ref = O.expm_batch(oracle_ad(spec, X[okE]))
                err = np.abs(AdE - ref).max(axis=(1, 2))
                ctx.check_array("Ad_exp_is_expm_ad", name, err, 1e-9 * sX[okE] * np.maximum(1, spec.alg_angle(X[okE])), {"x": X[okE]})
    numeric_path(ctx, spec, G, rng)
    ctx.sample({"config": name, "X": A[min(len(A) - 1, 40)], "x": X[min(len(X) - 1, 40)]})


def numeric_path(ctx, spec, G, rng, n=120):
    """the same operations called directly on numeric (DM) elements: CasADi simplifies constant expressions on a
    different code path than symbolic ones (sparsify with a tolerance, constant folding, ...), and that is how
    scripts and notebooks call the library.  Includes poses a hair away from the identity."""
    name = spec.name
    alg = G.algebra
    A = np.concatenate([group_corpus(spec)[:10], spec.rand(rng, n // 2, thi=10.0),
                        spec.rand(rng, n // 4, hi=2e-3, tlo=1e-9, thi=1e-5), spec.rand(rng, n // 4, hi=3.0, tlo=1e-9, thi=3e-7)])
    A = A[np.abs(A).max(axis=1) < 1e3]
    X = np.concatenate([algebra_corpus(spec)[:10], spec.alg_rand(rng, n // 2, thi=10.0), spec.alg_rand(rng, n // 4, hi=2e-3, tlo=1e-9, thi=1e-5)])
    X = X[np.abs(X).max(axis=1) < 1e3]
    MA = spec.mat(A)
    okA = euler_ok(spec, MA)
    refA, refX = oracle_Ad(spec, MA), oracle_ad(spec, X)
    eA, eX = [], []
    offered = True
    held = []  # results are kept and read only after all calls: a result must be a value, not a view of shared state
    for k in range(len(A)):
        if not okA[k]:
            eA.append(0.0)
            continue
        try:
            r_ = G.elem(ca.DM(A[k])).Ad()
            held.append((k, r_))
            v = ca.DM(r_).full()
            eA.append(float(np.abs(v - refA[k]).max()) if v.shape == refA[k].shape and np.isfinite(v).all() else np.inf)
        except NotImplementedError:
            offered = False
            break
        except Exception as e:
            ctx.violation("raises_numeric_Ad", name, {"exception": type(e).__name__, "message": str(e)[:200], "X": A[k]})
            offered = False
            break
    if offered and eA:
        ctx.check_array("numeric_Ad_is_conjugation", name, eA, 1e-9 * spec.scale(A), {"X": A})
        late = [float(np.abs(ca.DM(r_).full() - refA[k]).max()) if ca.DM(r_).full().shape == refA[k].shape else np.inf for k, r_ in held]
        ctx.check_array("Ad_result_unchanged_by_later_calls", name, late, 1e-9 * spec.scale(A[[k for k, _ in held]]), {"X": A[[k for k, _ in held]]})
    heldx = []
    for k in range(len(X)):
        try:
            r_ = alg.elem(ca.DM(X[k])).ad()
            heldx.append((k, r_))
            v = ca.DM(r_).full()
            eX.append(float(np.abs(v - refX[k]).max()) if v.shape == refX[k].shape and np.isfinite(v).all() else np.inf)
        except NotImplementedError:
            eX = []
            break
        except Exception as e:
            ctx.violation("raises_numeric_ad", name, {"exception": type(e).__name__, "message": str(e)[:200], "x": X[k]})
            eX = []
            break
    if eX:
        ctx.check_array("numeric_ad_is_commutator", name, eX, 1e-9 * spec.alg_scale(X), {"x": X})
        late = [float(np.abs(ca.DM(r_).full() - refX[k]).max()) if ca.DM(r_).full().shape == refX[k].shape else np.inf for k, r_ in heldx]
        ctx.check_array("ad_result_unchanged_by_later_calls", name, late, 1e-9 * spec.alg_scale(X[[k for k, _ in heldx]]), {"x": X[[k for k, _ in heldx]]})
