"""C14 -- attitude set-points are proper rotations aligned with the demanded thrust and heading."""
from __future__ import annotations

import numpy as np
import casadi as ca

from .. import oracles as O
from ..caseval import Ev
from ..groups import SO3S, SE23Spec
from .lie_common import lib_call

PI = np.pi
SHARDS = {"quick": 12, "thorough": 16}
REQUIRED_REACH = ['derive_position_control', 'derive_outerloop_control', 'derive_ref', 'derive_mr_ref_traj', 'derive_input_auto_level', 'derive_eulerB321_to_quat']
RULE = ("random position/velocity errors, feed-forward accelerations/jerks/snaps, headings in (-pi,pi], integrator values, trims + "
        "directed degenerate inputs (zero demanded force; force parallel to the heading vector; both sides of each norm threshold); "
        "the demanded force is recomputed by the oracle from the module's own constants read at run time; flatness rates compared "
        "with the casadi-AD time derivative of the returned attitude's thrust axis along random polynomial trajectories; cells = "
        "(thrust norm above/below threshold) x (y-axis norm above/below threshold); non-trivial = non-zero tilt demand; distinct = hashed inputs")
ASSUMPTIONS = ["only roll/pitch rates p,q and Euler's equation are claimed for the flatness maps (as the statement says)",
               "casadi AD gives the exact derivative of the returned attitude"]


def cquat_to_R(q):
    """oracle's own quaternion -> R in casadi (for AD of the returned attitude)"""
    a, b, c, d = q[0], q[1], q[2], q[3]
    return ca.vertcat(
        ca.horzcat(a * a + b * b - c * c - d * d, 2 * (b * c - a * d), 2 * (b * d + a * c)),
        ca.horzcat(2 * (b * c + a * d), a * a - b * b + c * c - d * d, 2 * (c * d - a * b)),
        ca.horzcat(2 * (b * d - a * c), 2 * (c * d + a * b), a * a - b * b - c * c + d * d))


def yaw_of_quat(q):
    return O.R_to_euler321(O.quat_to_R(q))[:, 0]


def frame_checks(ctx, site, R, qn_err, T, psi, nT_out, inp, thr_T, thr_y):
    """R: returned attitude (N,3,3) from the oracle's map of the returned parameters"""
    N = len(T)
    nT = np.linalg.norm(T, axis=1)
    xC = np.stack([np.cos(psi), np.sin(psi), np.zeros(N)], axis=1)
    zB_o = np.where(nT[:, None] > thr_T, T / np.where(nT > 0, nT, 1)[:, None], np.array([0, 0, 1.0]))
    nyB = np.linalg.norm(np.cross(zB_o, xC), axis=1)
    cellT = np.where(nT > thr_T, "T>thr", "T<=thr")
    celly = np.where(nyB > thr_y, "ny>thr", "ny<=thr")
    cells = np.char.add(np.char.add(cellT, "|"), celly)
    for c in np.unique(cells):
        ctx.cell("setpoint_cells:" + site, c)
    fin = np.isfinite(R).all(axis=(1, 2)) & np.isfinite(qn_err)
    # proper rotation everywhere, incl. the degenerate fallbacks
    pr = np.where(fin, np.maximum(O.is_rotation(R), qn_err), np.inf)
    ctx.check_array("proper_rotation", site, pr, 1e-9, inp, cells=cells)
    # alignment only where the construction is regular (margin around the thresholds)
    reg = (nT > 2 * thr_T) & (nyB > 2 * thr_y) & fin
    ez = np.abs(R[:, :, 2] - zB_o).max(axis=1)
    ctx.check_array("z_axis_is_thrust_direction", site, ez[reg], 1e-9 / np.maximum(nyB[reg], 1e-3), {k: v[reg] for k, v in inp.items()})
    ey = np.abs(np.sum(R[:, :, 1] * xC, axis=1))
    ctx.check_array("y_axis_perpendicular_to_heading", site, ey[reg], 1e-9 / np.maximum(nyB[reg], 1e-3), {k: v[reg] for k, v in inp.items()})
    fx = np.maximum(0, -np.sum(R[:, :, 0] * xC, axis=1))
    ctx.check_array("x_axis_towards_heading", site, fx[reg], 1e-9, {k: v[reg] for k, v in inp.items()})
    if nT_out is not None:
        ctx.check_array("thrust_magnitude", site, np.abs(nT_out - nT)[nT > thr_T] / np.maximum(1, nT[nT > thr_T]), 1e-12, {k: v[nT > thr_T] for k, v in inp.items()})
    return cells


def heading_parallel_force(rng, n, psi, mag):
    """forces (almost) parallel to the heading vector, on both sides of the 1e-3 / 1e-6 threshold"""
    xC = np.stack([np.cos(psi), np.sin(psi), np.zeros(n)], axis=1)
    perp = np.cross(xC, O.random_axes(rng, n))
    perp /= np.linalg.norm(perp, axis=1, keepdims=True)
    eps = rng.choice([0.0, 1e-12, 5e-7, 9.9e-7, 1.01e-6, 5e-4, 9.9e-4, 1.01e-3, 3e-3], n)
    d = xC * rng.choice([-1.0, 1.0], n)[:, None] + perp * eps[:, None]
    d /= np.linalg.norm(d, axis=1, keepdims=True)
    return d * mag[:, None]


def run(ctx):
    if ctx.shard == ctx.nshards - 1:
        # the by-name calling convention of the shipped functions this property is about (see vlib/named.py)
        from .. import named
        named.monitor(ctx, ['bezier:f_ref', 'bezier:eulerB321_to_quat', 'bezier:dcm_to_quat', 'mr_ref_traj:mr_ref_traj', 'rdd2:position_control', 'rdd2:input_auto_level', 'rdd2_loglinear:se23_position_control', 'rdd2:rotate_vector_w_to_b', 'rdd2:rotate_vector_wbto_w'], ctx.rng("named"))
        ctx.require("call_by_argument_name", "(by-name calls never evaluated)")
        named.derivation_history(ctx, ['bezier', 'mr_ref_traj', 'rdd2_loglinear'], ctx.rng("named2"))
    units = ["position_control", "se23_position_control", "f_ref", "mr_ref_traj", "flat_rates:f_ref", "flat_rates:mr_ref_traj",
             "ref_variants_agree", "helpers"]
    for i, u in enumerate(units):
        if i % ctx.nshards != ctx.shard:
            continue
        rng = ctx.rng("c14:" + u)
        N = 20000 if ctx.quick else 400000
        if u == "position_control":
            position_control(ctx, rng, N)
        elif u == "se23_position_control":
            se23_position_control(ctx, rng, 1200 if ctx.quick else 30000)
        elif u in ("f_ref", "mr_ref_traj"):
            flat_frames(ctx, rng, N, u)
        elif u.startswith("flat_rates"):
            flat_rates(ctx, rng, 4000 if ctx.quick else 100000, u.split(":")[1])
        elif u == "ref_variants_agree":
            variants_agree(ctx, rng, N)
        else:
            helpers(ctx, rng, N)


# ------------------------------------------------------------------------------ position controllers
def position_control(ctx, rng, N):
    from cyecca.models import rdd2
    f = lib_call(ctx, "derive", "position_control", lambda: rdd2.derive_position_control()["position_control"], not_implemented_ok=False)
    if f is None:
        return
    m, g, kp, kv, ki = rdd2.m, rdd2.g, rdd2.kp_pos, rdd2.kp_vel, rdd2.ki_z
    s = [ca.SX.sym(n, k) for n, k in (("trim", 1), ("pt", 3), ("vt", 3), ("at", 3), ("qc", 4), ("p", 3), ("v", 3), ("zi", 1), ("dt", 1))]
    ev = Ev("pc", s, list(f(*s)))
    trim = rng.uniform(0, 2 * m * g, N)
    pt, vt = rng.normal(size=(N, 3)) * 3, rng.normal(size=(N, 3))
    at = rng.normal(size=(N, 3)) * rng.choice([0.0, 1.0, 5.0], N)[:, None]
    p, v = pt + rng.normal(size=(N, 3)) * rng.choice([0.0, 0.1, 3.0], N)[:, None], vt + rng.normal(size=(N, 3)) * rng.choice([0.0, 0.1, 2.0], N)[:, None]
    zi = rng.uniform(-5, 5, N)
    dt = rng.uniform(1e-3, 0.1, N)
    psi = rng.uniform(-PI, PI, N)
    # camera quaternion: general attitudes (only their yaw matters), some pure yaw, both signs
    qc = SO3S["quat"].from_R(O.euler321_to_R(np.stack([psi, rng.uniform(-1.2, 1.2, N) * rng.choice([0, 1], N), rng.uniform(-3, 3, N) * rng.choice([0, 1], N)], axis=1)), rng)
    # directed degenerate demands: T = c * (almost) xC, or T = 0
    k = N // 5
    trim[:k] = 0.0
    zi[:k] = 0.0
    p[:k], v[:k] = pt[:k], vt[:k]
    mag = rng.uniform(0.01, 0.29 * m * g, k)
    psi_k = yaw_of_quat(qc[:k])
    at[:k] = heading_parallel_force(rng, k, psi_k, mag) / m
    k2 = N // 50
    at[:k2] = O.random_axes(rng, k2) * rng.choice([0.0, 5e-4, 9.9e-4, 1.01e-3, 2e-3], k2)[:, None] / m  # around |T| = 1e-3
    inp = {"thrust_trim": trim, "pt_w": pt, "vt_w": vt, "at_w": at, "qc_wb": qc, "p_w": p, "v_w": v, "z_i": zi, "dt": dt}
    (nT, q, zi2), pr = ev(trim, pt, vt, at, qc, p, v, zi, dt)
    ctx.cells_from("predicates:position_control", pr)
    q = q[:, :, 0]
    # oracle's demanded force
    pterm = -kp * (p - pt) - kv * (v - vt) + m * at
    pn = np.linalg.norm(pterm, axis=1)
    lim = 0.3 * m * g
    pterm = np.where((pn > lim)[:, None], lim * pterm / np.where(pn > 0, pn, 1)[:, None], pterm)
    T = pterm + (trim + ki * zi)[:, None] * np.array([0, 0, 1.0])
    frame_checks(ctx, "position_control", O.quat_to_R(q / np.linalg.norm(q, axis=1, keepdims=True)), np.abs(np.linalg.norm(q, axis=1) - 1), T,
                 yaw_of_quat(qc), nT[:, 0, 0], inp, 1e-3, 1e-3)
    ctx.distinct(np.concatenate([trim[:, None], pt, vt, at, qc, p, v, zi[:, None]], axis=1), np.linalg.norm(T[:, :2], axis=1) > 1e-9)
    ctx.sample({"function": "position_control", **{k_: v_[3] for k_, v_ in inp.items()}})


def se23_position_control(ctx, rng, N):
    from cyecca.models import rdd2_loglinear as ll
    from .c05 import ref_jacobians
    f = lib_call(ctx, "derive", "se23_position_control", lambda: ll.derive_outerloop_control()["se23_position_control"], not_implemented_ok=False)
    if f is None:
        return
    m, g, kpp, kpv, ki = ll.m, ll.g, ll.kp_pos, ll.kp_vel, ll.ki_z
    s = [ca.SX.sym(n, k) for n, k in (("trim", 1), ("kp", 3), ("zeta", 9), ("at", 3), ("qc", 4), ("zi", 1), ("dt", 1))]
    ev = Ev("spc", s, list(f(*s)))
    trim = rng.uniform(0, 2 * m * g, N)
    kpa = rng.uniform(0.5, 6, (N, 3))
    zeta = np.concatenate([rng.normal(size=(N, 6)) * rng.choice([0.0, 0.2, 2.0], N)[:, None], O.random_axes(rng, N) * rng.uniform(0, 2.5, N)[:, None]], axis=1)
    at = rng.normal(size=(N, 3)) * rng.choice([0.0, 1.0, 4.0], N)[:, None]
    psi = rng.uniform(-PI, PI, N)
    # camera attitude: general (only its yaw matters), some pure yaw, both quaternion signs
    qc = SO3S["quat"].from_R(O.euler321_to_R(np.stack([psi, rng.uniform(-1.2, 1.2, N) * rng.choice([0, 1], N), rng.uniform(-3, 3, N) * rng.choice([0, 1], N)], axis=1)), rng)
    zi = rng.uniform(-5, 5, N)
    dt = rng.uniform(1e-3, 0.1, N)
    k = N // 4
    zeta[:k] = 0.0
    trim[:k] = 0.0
    zi[:k] = 0.0
    at[:k] = heading_parallel_force(rng, k, yaw_of_quat(qc[:k]), rng.uniform(0.01, 0.29 * m * g, k)) / m
    at[: k // 8] = 0.0
    inp = {"thrust_trim": trim, "kp": kpa, "zeta": zeta, "at_w": at, "qc_wb": qc, "z_i": zi, "dt": dt}
    (nT, q, zi2), pr = ev(trim, kpa, zeta, at, qc, zi, dt)
    q = q[:, :, 0]
    Jl, _ = ref_jacobians(SE23Spec(SO3S["quat"]), zeta)
    K = np.concatenate([np.full((N, 3), kpp), np.full((N, 3), kpv), kpa], axis=1)
    u = np.einsum("nij,nj->ni", Jl, K * zeta)
    pterm = u[:, 0:3] + u[:, 3:6] + m * at
    pn = np.linalg.norm(pterm, axis=1)
    lim = 0.3 * m * g
    pterm = np.where((pn > lim)[:, None], lim * pterm / np.where(pn > 0, pn, 1)[:, None], pterm)
    T = pterm + (trim + ki * zi)[:, None] * np.array([0, 0, 1.0])
    frame_checks(ctx, "se23_position_control", O.quat_to_R(q / np.linalg.norm(q, axis=1, keepdims=True)), np.abs(np.linalg.norm(q, axis=1) - 1), T,
                 yaw_of_quat(qc), nT[:, 0, 0], inp, 1e-3, 1e-3)
    ctx.distinct(np.concatenate([trim[:, None], kpa, zeta, at, qc, zi[:, None]], axis=1), np.linalg.norm(T[:, :2], axis=1) > 1e-9)


# ------------------------------------------------------------------------------ flatness maps
def flat_funcs(ctx, which):
    if which == "f_ref":
        from cyecca.models import bezier as bz
        f = lib_call(ctx, "derive", "f_ref", lambda: bz.derive_ref()["f_ref"], not_implemented_ok=False)
        consts = dict(m=bz.m, g=bz.g, J=(bz.J_xx, bz.J_yy, bz.J_zz, bz.J_xz))
    else:
        from cyecca.models import mr_ref_traj as mr
        f = lib_call(ctx, "derive", "mr_ref_traj", lambda: mr.derive_mr_ref_traj()["mr_ref_traj"], not_implemented_ok=False)
        consts = None
    return f, consts


def flat_inputs(rng, N, degenerate=True, g=9.8):
    psi = rng.uniform(-PI, PI, N)
    psid = rng.normal(size=N)
    psidd = rng.normal(size=N)
    v = rng.normal(size=(N, 3)) * 2
    a = rng.normal(size=(N, 3)) * rng.choice([0.0, 1.0, 4.0], N)[:, None]
    j = rng.normal(size=(N, 3)) * 2
    s = rng.normal(size=(N, 3)) * 2
    if degenerate:
        k = N // 5
        # thrust m(g zh - a) parallel to heading: a = g zh - d
        d = heading_parallel_force(rng, k, psi[:k], rng.uniform(0.5, 10, k))
        a[:k] = np.array([0, 0, g]) - d
        k2 = N // 40
        a[:k2] = np.array([0, 0, g]) - O.random_axes(rng, k2) * rng.choice([0.0, 1e-9, 2e-7, 4.9e-7, 5.1e-7, 1e-6, 1e-4], k2)[:, None]
    return psi, psid, psidd, v, a, j, s


def call_flat(ctx, which, f, consts, psi, psid, psidd, v, a, j, s, rng):
    N = len(psi)
    if which == "f_ref":
        sy = [ca.SX.sym(n, k) for n, k in (("psi", 1), ("psid", 1), ("psidd", 1), ("v", 3), ("a", 3), ("j", 3), ("s", 3))]
        ev = Ev("fr", sy, list(f(*sy)))
        (vb, quat, om, omd, Mb, T), pr = ev(psi, psid, psidd, v, a, j, s)
        q = quat[:, :, 0]
        R = O.quat_to_R(q / np.linalg.norm(q, axis=1, keepdims=True))
        qerr = np.abs(np.linalg.norm(q, axis=1) - 1)
        m, g = np.full(N, consts["m"]), np.full(N, consts["g"])
        J = np.tile(np.array(consts["J"], dtype=float), (N, 1))
    else:
        m = rng.uniform(0.3, 5, N)
        g = rng.choice([9.8, 9.81, 3.7], N)
        J = np.stack([rng.uniform(0.005, 0.1, N), rng.uniform(0.005, 0.1, N), rng.uniform(0.01, 0.2, N), rng.uniform(-0.002, 0.002, N)], axis=1)
        sy = [ca.SX.sym(n, k) for n, k in (("psi", 1), ("psid", 1), ("psidd", 1), ("v", 3), ("a", 3), ("j", 3), ("s", 3), ("m", 1), ("g", 1),
                                           ("Jx", 1), ("Jy", 1), ("Jz", 1), ("Jxz", 1))]
        ev = Ev("mr", sy, list(f(*sy)))
        (vb, C, om, omd, Mb, T), pr = ev(psi, psid, psidd, v, a, j, s, m, g, J[:, 0], J[:, 1], J[:, 2], J[:, 3])
        R = C
        qerr = np.zeros(N)
    return R, qerr, om[:, :, 0], omd[:, :, 0], Mb[:, :, 0], T[:, 0, 0], m, g, J, pr


def flat_frames(ctx, rng, N, which):
    f, consts = flat_funcs(ctx, which)
    if f is None:
        return
    g0 = consts["g"] if consts else 9.8
    psi, psid, psidd, v, a, j, s = flat_inputs(rng, N, g=g0)
    R, qerr, om, omd, Mb, T, m, g, J, pr = call_flat(ctx, which, f, consts, psi, psid, psidd, v, a, j, s, rng)
    if which == "mr_ref_traj":  # degenerate inputs were built for g0; rebuild thrust with each case's g
        pass
    ctx.cells_from("predicates:" + which, pr)
    thrust = m[:, None] * (g[:, None] * np.array([0, 0, 1.0]) - a)
    inp = {"psi": psi, "a_e": a, "j_e": j, "m": m, "g": g}
    frame_checks(ctx, which, R, qerr, thrust, psi, T, inp, 1e-6, 1e-6)
    # Euler's equation for the returned rates (wherever everything is finite)
    Jm = np.zeros((N, 3, 3))
    Jm[:, 0, 0], Jm[:, 1, 1], Jm[:, 2, 2] = J[:, 0], J[:, 1], J[:, 2]
    Jm[:, 0, 2] = Jm[:, 2, 0] = J[:, 3]
    Mref = np.einsum("nij,nj->ni", Jm, omd) + np.cross(om, np.einsum("nij,nj->ni", Jm, om))
    fin = np.isfinite(Mb).all(axis=1) & np.isfinite(Mref).all(axis=1)
    ctx.check_array("euler_equation", which, np.abs(Mb - Mref).max(axis=1)[fin] / np.maximum(1, np.abs(Mref).max(axis=1)[fin]), 1e-9, {k: v_[fin] for k, v_ in inp.items()})
    ctx.distinct(np.concatenate([psi[:, None], v, a, j, s], axis=1), np.linalg.norm(a[:, :2], axis=1) > 1e-9)
    ctx.sample({"function": which, "psi": psi[9], "a_e": a[9], "j_e": j[9]})


def flat_rates(ctx, rng, N, which):
    """p, q must be the true rotation rate of the thrust axis: d/dt z_b = q x_b - p y_b, with d/dt from AD of the
    *returned* attitude along a trajectory a(t), psi(t) (a' = j, psi' = psi_dot)"""
    f, consts = flat_funcs(ctx, which)
    if f is None:
        return
    psi, psid, psidd, v, a, j, s = ca.SX.sym("psi"), ca.SX.sym("psid"), ca.SX.sym("psidd"), ca.SX.sym("v", 3), ca.SX.sym("a", 3), ca.SX.sym("j", 3), ca.SX.sym("s", 3)
    if which == "f_ref":
        out = f(psi, psid, psidd, v, a, j, s)
        Rs = cquat_to_R(out[1] / ca.norm_2(out[1]))
        extra, extra_sy = [], []
    else:
        m, g, Jx, Jy, Jz, Jxz = [ca.SX.sym(n) for n in ("m", "g", "Jx", "Jy", "Jz", "Jxz")]
        out = f(psi, psid, psidd, v, a, j, s, m, g, Jx, Jy, Jz, Jxz)
        Rs = out[1]
        extra_sy = [m, g, Jx, Jy, Jz, Jxz]
    zb = Rs[:, 2]
    zb_dot = ca.jacobian(zb, a) @ j + ca.jacobian(zb, psi) * psid
    om = out[2]
    pred = om[1] * Rs[:, 0] - om[0] * Rs[:, 1]
    ev = Ev("rates", [psi, psid, psidd, v, a, j, s] + extra_sy, [zb_dot, pred, om], probe=False)
    P = flat_inputs(rng, N, degenerate=False)
    args = list(P)
    if which != "f_ref":
        args += [rng.uniform(0.3, 5, N), rng.choice([9.8, 3.7], N), rng.uniform(0.005, 0.1, N), rng.uniform(0.005, 0.1, N), rng.uniform(0.01, 0.2, N), rng.uniform(-0.002, 0.002, N)]
        mm, gg = args[7], args[8]
    else:
        mm, gg = np.full(N, consts["m"]), np.full(N, consts["g"])
    (zd, pr_, omv), _ = ev(*args)
    a_, psi_ = P[4], P[0]
    thrust = mm[:, None] * (gg[:, None] * np.array([0, 0, 1.0]) - a_)
    nT = np.linalg.norm(thrust, axis=1)
    zB = thrust / nT[:, None]
    xC = np.stack([np.cos(psi_), np.sin(psi_), 0 * psi_], axis=1)
    nyB = np.linalg.norm(np.cross(zB, xC), axis=1)
    reg = (nT > 1e-2) & (nyB > 1e-2)
    err = np.abs(zd[:, :, 0] - pr_[:, :, 0]).max(axis=1)
    sc = np.maximum(1, np.abs(zd[:, :, 0]).max(axis=1))
    ctx.check_array("roll_pitch_rates_are_thrust_axis_rate", which, (err / sc)[reg], 1e-9 / nyB[reg], {"psi": psi_[reg], "a_e": a_[reg], "j_e": P[5][reg], "psi_dot": P[1][reg]})
    ctx.distinct(np.concatenate([P[0][:, None], P[1][:, None], P[4], P[5]], axis=1), np.linalg.norm(P[5], axis=1) > 1e-9)


def variants_agree(ctx, rng, N):
    fa, ca_ = flat_funcs(ctx, "f_ref")
    fb, _ = flat_funcs(ctx, "mr_ref_traj")
    if fa is None or fb is None:
        return
    sy = [ca.SX.sym(n, k) for n, k in (("psi", 1), ("psid", 1), ("psidd", 1), ("v", 3), ("a", 3), ("j", 3), ("s", 3))]
    oa = fa(*sy)
    J = ca_["J"]
    ob = fb(*sy, ca_["m"], ca_["g"], J[0], J[1], J[2], J[3])
    ev = Ev("both", sy, list(oa) + list(ob), probe=False)
    P = flat_inputs(rng, N, degenerate=False)
    outs, _ = ev(*P)
    vbA, qA, omA, omdA, MA, TA, vbB, CB, omB, omdB, MB, TB = outs
    q = qA[:, :, 0]
    RA = O.quat_to_R(q / np.linalg.norm(q, axis=1, keepdims=True))
    thrust = ca_["m"] * (ca_["g"] * np.array([0, 0, 1.0]) - P[4])
    nT = np.linalg.norm(thrust, axis=1)
    xC = np.stack([np.cos(P[0]), np.sin(P[0]), 0 * P[0]], axis=1)
    nyB = np.linalg.norm(np.cross(thrust / nT[:, None], xC), axis=1)
    reg = (nT > 1e-2) & (nyB > 1e-2)
    inp = {"psi": P[0][reg], "a_e": P[4][reg], "j_e": P[5][reg], "s_e": P[6][reg]}
    cond = 1.0 / nyB[reg] ** 2
    for name, A, B in (("attitude", RA, CB), ("omega", omA, omB), ("omega_dot", omdA, omdB), ("moment", MA, MB), ("thrust", TA, TB), ("v_b", vbA, vbB)):
        e = np.abs(A - B).reshape(N, -1).max(axis=1)
        sc = np.maximum(1, np.abs(B).reshape(N, -1).max(axis=1))
        ok = np.isfinite(e)
        ctx.check_array("variants_agree_" + name, "f_ref_vs_mr_ref_traj", np.where(ok, e / sc, np.inf)[reg], 1e-9 * cond, inp)
    ctx.distinct(np.concatenate([P[0][:, None], P[4], P[5], P[6]], axis=1))


# ------------------------------------------------------------------------------ helpers
def helpers(ctx, rng, N):
    from cyecca.models import rdd2, bezier as bz
    # eulerB321_to_quat
    f = lib_call(ctx, "derive", "eulerB321_to_quat", lambda: bz.derive_eulerB321_to_quat()["eulerB321_to_quat"], not_implemented_ok=False)
    if f is not None:
        y, p, r = ca.SX.sym("y"), ca.SX.sym("p"), ca.SX.sym("r")
        ev = Ev("e2q", [y, p, r], [f(y, p, r)])
        E = np.stack([rng.uniform(-PI, PI, N), rng.uniform(-PI / 2, PI / 2, N), rng.uniform(-PI, PI, N)], axis=1)
        k = N // 10
        E[:k, 1] = rng.choice([-1.0, 1.0], k) * (PI / 2 - rng.choice([0.0, 1e-12, 5e-4, 1.5e-3], k))
        E[k:2 * k] = rng.uniform(-7, 7, (k, 3))
        (q,), pr = ev(E[:, 0], E[:, 1], E[:, 2])
        ctx.cells_from("predicates:eulerB321_to_quat", pr)
        q = q[:, :, 0]
        ctx.check_array("unit_quaternion", "eulerB321_to_quat", np.where(np.isfinite(q).all(axis=1), np.abs(np.linalg.norm(q, axis=1) - 1), np.inf), 1e-9, {"yaw_pitch_roll": E})
        ctx.check_array("same_rotation", "eulerB321_to_quat", np.abs(O.quat_to_R(q) - O.euler321_to_R(E)).max(axis=(1, 2)), 1e-9, {"yaw_pitch_roll": E})
        ctx.distinct(E)
    # input_auto_level
    f = lib_call(ctx, "derive", "input_auto_level", lambda: rdd2.derive_input_auto_level()["input_auto_level"], not_implemented_ok=False)
    if f is not None:
        s = [ca.SX.sym(n, k) for n, k in (("trim", 1), ("delta", 1), ("aetr", 4), ("q", 4))]
        ev = Ev("al", s, list(f(*s)))
        q0 = SO3S["quat"].rand(rng, N)
        k = N // 10
        q0[:k] = SO3S["quat"].from_R(O.euler321_to_R(np.stack([rng.uniform(-PI, PI, k), rng.choice([-1.0, 1.0], k) * (PI / 2 - rng.choice([0.0, 1e-9, 5e-4, 2e-3], k)), rng.uniform(-PI, PI, k)], axis=1)), rng)
        aetr = rng.uniform(-1, 1, (N, 4))
        trim, delta = rng.uniform(0, 30, N), rng.uniform(0, 30, N)
        (qr, th), pr = ev(trim, delta, aetr, q0)
        qr = qr[:, :, 0]
        ctx.check_array("unit_quaternion", "input_auto_level", np.where(np.isfinite(qr).all(axis=1), np.abs(np.linalg.norm(qr, axis=1) - 1), np.inf), 1e-9, {"q": q0, "input_aetr": aetr})
        # commanded roll/pitch are the stick angles: R_r = Rz(yaw_r) Ry(pitch_cmd) Rx(roll_cmd) -> check tilt part
        d2r = PI / 180
        pitch_cmd, roll_cmd = rdd2.rollpitch_max * d2r * aetr[:, 1], rdd2.rollpitch_max * d2r * aetr[:, 0]
        Rr = O.quat_to_R(qr)
        tilt_ref = (O.Ry(pitch_cmd) @ O.Rx(roll_cmd))[:, 2, :]  # third row is yaw-independent
        ctx.check_array("auto_level_tilt", "input_auto_level", np.abs(Rr[:, 2, :] - tilt_ref).max(axis=1), 1e-9, {"q": q0, "input_aetr": aetr})
        ctx.distinct(np.concatenate([q0, aetr], axis=1))
    # input_velocity q_sp
    f = lib_call(ctx, "derive", "input_velocity", lambda: rdd2.derive_input_velocity()["input_velocity"], not_implemented_ok=False)
    if f is not None:
        s = [ca.SX.sym(n, k) for n, k in (("dt", 1), ("psi", 1), ("pwsp", 3), ("pw", 3), ("aetr", 4), ("reset", 1))]
        ev = Ev("iv", s, list(f(*s)))
        dt = rng.uniform(1e-3, 0.1, N)
        psi = rng.uniform(-10, 10, N)
        pwsp, pw = rng.normal(size=(N, 3)) * 3, rng.normal(size=(N, 3)) * 3
        aetr = rng.uniform(-1, 1, (N, 4))
        reset = rng.choice([0.0, 1.0], N)
        outs, _ = ev(dt, psi, pwsp, pw, aetr, reset)
        psi1, qsp = outs[0][:, 0, 0], outs[5][:, :, 0]
        ctx.check_array("unit_quaternion", "input_velocity.q_sp", np.where(np.isfinite(qsp).all(axis=1), np.abs(np.linalg.norm(qsp, axis=1) - 1), np.inf), 1e-9, {"psi_sp": psi, "input_aetr": aetr})
        ctx.check_array("same_rotation", "input_velocity.q_sp", np.abs(O.quat_to_R(qsp) - O.Rz(psi1)).max(axis=(1, 2)), 1e-9, {"psi_sp": psi, "input_aetr": aetr})
