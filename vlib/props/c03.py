"""C03 -- log inverts exp and returns the principal, representation-independent rotation."""
from __future__ import annotations

import numpy as np
import casadi as ca

from .. import oracles as O
from ..caseval import Ev
from ..groups import extra_euler_specs, base_specs, product_specs, ProductSpec, SO3Spec, SE3Spec, SE23Spec, SE2Spec, SO2Spec, angle_mix
from .lie_common import (inplace_history, sparse_param_form, lib_call, euler_ok, algebra_corpus, group_corpus, run_contract_slice, configs_for_shard,
                         rot_angles, so3_of, parts_of, algebra_switch_points)

PI = np.pi
MARGIN = 0.05
SHARDS = {"quick": 14, "thorough": 16}
REQUIRED_REACH = ['SO3QuatLieGroup.log', 'SO3MrpLieGroup.log', 'SO3DcmLieGroup.log', 'SO3EulerLieGroup.log', 'SE2LieGroup.log', 'SE3LieGroup.log', 'SE23LieGroup.log', 'LieGroupDirectProduct.log']
RULE = ("per group: (a) elements X from axis-angle (angle 0..pi-0.05; both quaternion signs incl. q~(-1,0,0,0), shadow MRPs, "
        "DCM, Euler outside the band; SE(2) |theta|<2pi-0.05) checked exp(log X)=X as matrices; (b) algebra x with angle "
        "< pi-0.05 checked log(exp x)=x as parameters; (c) the same rotation (axis, angle) expressed in all four SO(3) "
        "parameterisations by the oracle: rotation part of log must equal angle*axis (principal) for every one; non-trivial = "
        "angle > 1e-6; distinct = hashed inputs")
ASSUMPTIONS = ["rotation angles within 0.05 rad of pi are excluded (log is singular there)",
               "numpy/scipy oracles; CasADi VM"]
N_QUICK = 12000
N_THOROUGH = 400000


def run(ctx):
    N = N_QUICK if ctx.quick else N_THOROUGH
    cfg_rng = np.random.default_rng([ctx.seed, 103])
    specs = base_specs() + product_specs(cfg_rng, ctx.tier)
    for spec in configs_for_shard(specs, ctx):
        check_config(ctx, spec, N if not isinstance(spec, ProductSpec) or ctx.quick else max(1000, N // 20))
    if ctx.shard == ctx.nshards - 1:
        principal_cross_representation(ctx, N)
    if ctx.shard == 0:
        run_contract_slice(ctx, base_specs(), 40 if ctx.quick else 400, ops=("log",))
    if ctx.shard == 1 % ctx.nshards:
        inplace_history(ctx, base_specs() + product_specs(cfg_rng, "quick")[:2], 4 if ctx.quick else 40, ops=("log", "exp"))
        sparse_param_form(ctx, base_specs() + product_specs(cfg_rng, "quick")[:2], ops=("log", "exp"))


def principal_cross_representation(ctx, N):
    """the same rotation in 4 parameterisations (and inside SE3/SE23): log must be angle*axis for all"""
    rng = ctx.rng("c03:principal")
    axis = O.random_axes(rng, N)
    th = angle_mix(rng, N, PI - MARGIN)
    want = axis * th[:, None]
    R = O.rodrigues(want)
    logs = {}
    for kind in ("quat", "mrp", "dcm", "euler"):
        s = SO3Spec(kind)
        for wrap in ("SO3", "SE3", "SE23"):
            spec = s if wrap == "SO3" else (SE3Spec(s) if wrap == "SE3" else SE23Spec(s))
            G = lib_call(ctx, "lib", spec.name, spec.lib)
            if G is None:
                continue
            a = ca.SX.sym("a", spec.n)
            ev = lib_call(ctx, "log", spec.name, lambda: Ev("log", [a], [G.elem(a).log().param]))
            if ev is None:
                continue
            # canonical inputs: any unit quaternion (both signs), MRP with |r|<=1, any DCM / Euler triple
            if kind == "quat":
                P = O.axang_to_quat(axis, th) * rng.choice([-1.0, 1.0], size=(N, 1))
            elif kind == "mrp":
                P = O.axang_to_mrp(axis, th)
            elif kind == "dcm":
                P = O.dcm_param(R)
            else:
                P = O.R_to_euler321(R)
            ok = np.ones(N, bool) if kind != "euler" else (s.gimbal_dist(R) > 2.5e-3)
            if wrap == "SE3":
                P = np.concatenate([rng.uniform(-1, 1, (N, 3)), P], axis=1)
            elif wrap == "SE23":
                P = np.concatenate([rng.uniform(-1, 1, (N, 6)), P], axis=1)
            (L,), pr = ev(P[ok])
            ctx.cells_from("log:" + spec.name, pr)
            w = L[:, -3:, 0]
            err = np.abs(w - want[ok]).max(axis=1)
            # conditioning of theta from a double-precision rotation near pi: 1/sin(theta) on matrix-based logs
            tol = 1e-9 * np.maximum(1.0, 1.0 / np.maximum(np.sin(th[ok]), 1e-3)) if kind in ("dcm", "euler") else 1e-9
            ctx.check_array("log_principal", spec.name, err, tol, {"axis": axis[ok], "angle": th[ok], "X": P[ok]})
            if wrap == "SO3":
                logs[kind] = (ok, w)
    ctx.distinct(np.concatenate([axis, th[:, None]], axis=1), th > 1e-6)
    # Euler groups of other types / sequences (public class; log is offered for them through the DCM)
    for es in extra_euler_specs():
        G = lib_call(ctx, "lib", es.name, es.lib)
        if G is None:
            continue
        a = ca.SX.sym("a", 3)
        ev = lib_call(ctx, "log", es.name, lambda: Ev("log", [a], [G.elem(a).log().param]))
        if ev is None:
            continue
        P = es.rand(rng, N)
        P[: N // 4, rng.integers(0, 3)] = 0.0  # triples with a zero angle as well
        Rm = es.mat(P)
        wantE = O.log_R(Rm)
        ang = np.linalg.norm(wantE, axis=1)
        ok = ang < PI - MARGIN
        (L,), pr = ev(P[ok])
        err = np.abs(L[:, :, 0] - wantE[ok]).max(axis=1)
        tol = 1e-9 * np.maximum(1.0, 1.0 / np.maximum(np.sin(ang[ok]), 1e-3))
        ctx.check_array("log_principal", es.name, err, tol, {"angle": ang[ok], "X": P[ok]})
    # explicit cross-representation agreement
    kinds = list(logs)
    for i in range(len(kinds)):
        for j in range(i + 1, len(kinds)):
            oki, wi = logs[kinds[i]]
            okj, wj = logs[kinds[j]]
            both = oki & okj
            ei = np.zeros((N, 3)); ei[oki] = wi
            ej = np.zeros((N, 3)); ej[okj] = wj
            err = np.abs(ei - ej).max(axis=1)[both]
            tol = 2e-9 * np.maximum(1.0, 1.0 / np.maximum(np.sin(th[both]), 1e-3))
            ctx.check_array("log_cross_representation", kinds[i] + "_vs_" + kinds[j], err, tol,
                            {"axis": axis[both], "angle": th[both]})


def check_config(ctx, spec, N):
    name = spec.name
    rng = ctx.rng("c03:" + name)
    G = lib_call(ctx, "lib", name, spec.lib)
    if G is None:
        return
    a = ca.SX.sym("a", spec.n)
    x = ca.SX.sym("x", spec.na)
    se2_like = isinstance(spec, (SE2Spec, SO2Spec))
    # ---- exp(log X) = X
    ev = lib_call(ctx, "exp_log", name, lambda: Ev("explog", [a], [G.elem(a).log().exp(G).param, G.elem(a).log().param]))
    if ev is not None:
        hi = (2 * PI - MARGIN) if se2_like else (PI - MARGIN)
        A = np.concatenate([group_corpus(spec), spec.rand(rng, N, hi=hi, near_hi=True, thi=1e2)])
        MA = spec.mat(A)
        ok = euler_ok(spec, MA)
        if not se2_like:
            ok &= rot_angles(spec, MA) < PI - MARGIN
        else:
            ok &= np.abs(A[:, -1]) < 2 * PI - MARGIN
        ctx.skip("near_pi_or_band:" + name, int((~ok).sum()))
        A, MA = A[ok], MA[ok]
        sc = spec.scale(A)
        (P, L), pr = ev(A)
        ctx.cells_from("exp_log:" + name, pr)
        err = np.abs(spec.mat(P[:, :, 0]) - MA).max(axis=(1, 2))
        ctx.check_array("exp_log", name, err, 1e-9 * sc, {"X": A})
        fin = np.isfinite(L[:, :, 0]).all(axis=1)
        ctx.check_array("log_finite", name, (~fin).astype(float), 0.5, {"X": A})
        ctx.distinct(A, rot_angles(spec, MA) > 1e-6)
    # ---- log(exp x) = x for rotation angle < pi
    ev = lib_call(ctx, "log_exp", name, lambda: Ev("logexp", [x], [G.algebra.elem(x).exp(G).log().param]))
    if ev is not None:
        X = np.concatenate([algebra_corpus(spec), spec.alg_rand(rng, N, hi=PI - MARGIN, thi=1e2)])
        sw = algebra_switch_points(ctx, spec, ev, rng)
        if len(sw):
            X = np.concatenate([X, sw])
        ang = spec.alg_angle(X)
        ok = ang < PI - MARGIN
        ref = O.expm_batch(spec.hat(X[ok]))
        ok2 = euler_ok(spec, ref)
        X = X[ok][ok2]
        sc = spec.alg_scale(X)
        (L,), pr = ev(X)
        ctx.cells_from("log_exp:" + name, pr)
        err = np.abs(L[:, :, 0] - X).max(axis=1)
        ctx.check_array("log_exp", name, err, 1e-9 * sc * np.maximum(1, 1 / np.maximum(np.sin(np.minimum(spec.alg_angle(X), PI - MARGIN)), 1e-2)) if _matrix_log(spec) else 1e-9 * sc, {"x": X})
        ctx.distinct(X, spec.alg_angle(X) > 1e-6)
    ctx.sample({"config": name})


def _matrix_log(spec):
    return any(so3_of(p) is not None and so3_of(p).kind in ("dcm", "euler") for p in parts_of(spec))
