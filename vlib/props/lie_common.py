"""shared pieces of the Lie-group checks C01-C07"""
from __future__ import annotations

import traceback

import numpy as np
import casadi as ca

from .. import oracles as O
from ..groups import ProductSpec, SO3Spec, SE3Spec, SE23Spec, SO2Spec, SE2Spec, RnSpec, EulerSeqSpec

PI = np.pi


def lib_call(ctx, sub, site, fn, not_implemented_ok=True):
    """run a piece of library code; an operation that explicitly raises NotImplementedError is
    'not offered' (out of scope); any other exception is a refuting observation"""
    try:
        return fn()
    except NotImplementedError:
        ctx.count("not_offered:%s:%s" % (sub, site))
        return None
    except Exception as e:
        tb = traceback.format_exc().strip().splitlines()
        ctx.tally("%s:%s" % (sub, site))
        ctx.violation("raises_" + sub, site, {"exception": type(e).__name__, "message": str(e)[:300],
                                             "where": tb[-3:] if len(tb) > 3 else tb})
        return None


def parts_of(spec):
    return spec.parts if isinstance(spec, ProductSpec) else [spec]


def so3_of(p):
    if isinstance(p, SO3Spec):
        return p
    return getattr(p, "so3", None)


def euler_ok(spec, M, margin=2.5e-3):
    """mask: every Euler-parameterised block of the (oracle) matrix M is outside the gimbal band"""
    ok = np.ones(len(M), dtype=bool)
    i = 0
    for p in parts_of(spec):
        s = so3_of(p)
        if s is not None and s.kind == "euler":
            R = M[:, i:i + 3, i:i + 3]
            ok &= s.gimbal_dist(R) > margin
        i += p.md
    return ok


def mrp_product_ok(spec, A, B, thresh=0.05):
    """mask: MRP product formula away from its 360-degree singularity (cos^2(theta_ab/4) > thresh)"""
    ok = np.ones(len(A), dtype=bool)
    j = 0
    for p in parts_of(spec):
        s = so3_of(p)
        if s is not None and s.kind == "mrp":
            a = A[:, j + p.n - 3:j + p.n]
            b = B[:, j + p.n - 3:j + p.n]
            na = np.sum(a * a, axis=1)
            nb = np.sum(b * b, axis=1)
            den = 1 + na * nb - 2 * np.sum(a * b, axis=1)
            ok &= den / ((1 + na) * (1 + nb)) > thresh
        j += p.n
    return ok


def rot_angles(spec, M):
    """largest rotation angle over the rotation blocks of the oracle matrices M"""
    th = np.zeros(len(M))
    i = 0
    for p in parts_of(spec):
        if so3_of(p) is not None:
            th = np.maximum(th, O.rot_angle(M[:, i:i + 3, i:i + 3]))
        i += p.md
    return th


SO3_CORPUS_AXANG = [
    ((1, 0, 0), 0.0), ((1, 0, 0), PI), ((0, 1, 0), PI), ((0, 0, 1), PI),
    ((1, 1, 0), PI), ((1, 0, 1), PI), ((0, 1, 1), PI), ((1, 1, 1), PI),
    ((1, 1, 1), 2 * PI / 3), ((1, -1, 1), 2 * PI / 3), ((1, 0, 0), PI / 2), ((0, 0, 1), PI / 2),
    ((0, 0, 1), -PI / 2), ((1, 2, 3), 1e-8), ((3, -2, 1), 1e-300), ((1, 1, 1), PI - 1e-7),
    ((0.6, 0.0, 0.8), 3.0), ((0, 1, 0), 1.0), ((0, 1, 0), PI / 2 - 0.01),
    ((1, 0, 0), 1e-3), ((0, 0, 1), 0.0316), ((2, 1, 2), 0.0632),
]


def so3_corpus(s, rng):
    ax = np.array([a for a, _ in SO3_CORPUS_AXANG], dtype=float)
    ax /= np.linalg.norm(ax, axis=1, keepdims=True)
    th = np.array([t for _, t in SO3_CORPUS_AXANG], dtype=float)
    P = s.from_axang(ax, th, rng, canonical=True)
    if s.kind == "quat":
        P = np.concatenate([P, -P, np.array([[-1.0, 0, 0, 0]])])
    if s.kind == "mrp":
        # shadow counterparts of the non-trivial ones
        n2 = np.sum(P * P, axis=1)
        m = n2 > 1e-12
        P = np.concatenate([P, -P[m] / n2[m][:, None]])
    if s.kind == "euler":
        R = O.euler321_to_R(P)
        P = P[s.gimbal_dist(R) > 2.5e-3]
        P = np.concatenate([P, np.array([[3.0, 1.2, -3.0], [0.5, PI / 2 - 3e-3, 0.2], [-2.0, -PI / 2 + 3e-3, 1.0],
                                         [1.0, 2.0, 0.3], [0.1, -2.5, 3.1]])])
    return P


TRANS_CORPUS = np.array([[0, 0, 0], [1, -2, 3], [1e6, -1e-6, 0.5], [-1e-9, 1e-9, 0], [0, 0, -7.5]], dtype=float)


def group_corpus(spec):
    rng = np.random.default_rng(7)
    if isinstance(spec, EulerSeqSpec):
        return np.array([[0.0, 0, 0], [PI / 2, 0, 0], [0, PI / 2, 0], [0.3, -2.0, 3.0], [PI, PI, -PI], [1e-9, 0, -1e-9]])
    if isinstance(spec, SO3Spec):
        return so3_corpus(spec, rng)
    if isinstance(spec, SE3Spec):
        R = so3_corpus(spec.so3, rng)
        T = TRANS_CORPUS[np.arange(len(R)) % len(TRANS_CORPUS)]
        return np.concatenate([T, R], axis=1)
    if isinstance(spec, SE23Spec):
        R = so3_corpus(spec.so3, rng)
        T = TRANS_CORPUS[np.arange(len(R)) % len(TRANS_CORPUS)]
        V = TRANS_CORPUS[(np.arange(len(R)) * 2 + 1) % len(TRANS_CORPUS)]
        return np.concatenate([T, V, R], axis=1)
    if isinstance(spec, SO2Spec):
        return np.array([[0.0], [PI], [-PI], [PI / 2], [1e-300], [2 * PI], [-3.0], [1e-3]])
    if isinstance(spec, SE2Spec):
        th = np.array([0.0, PI, -PI, PI / 2, 1e-300, 2 * PI - 0.1, -3.0, 1e-3, 1.0000001e-3, 0.99999e-3])
        T = TRANS_CORPUS[np.arange(len(th)) % len(TRANS_CORPUS)][:, :2]
        return np.concatenate([T, th[:, None]], axis=1)
    if isinstance(spec, RnSpec):
        T = np.tile(TRANS_CORPUS, (1, 2))[:, : spec.k]
        return np.concatenate([T, np.ones((1, spec.k))])
    if isinstance(spec, ProductSpec):
        cs = [group_corpus(p) for p in spec.parts]
        L = max(len(c) for c in cs)
        return np.concatenate([c[np.arange(L) % len(c)] for c in cs], axis=1)
    raise TypeError(spec)


def algebra_corpus(spec):
    """boundary algebra vectors: zero, denormal, around every switch, pi, beyond pi"""
    if isinstance(spec, EulerSeqSpec):
        return algebra_corpus(SO3Spec("quat"))
    ths = [0.0, 5e-324, 1e-300, 1e-160, 1e-20, 1e-9, 1e-4, 9.9999e-4, 1e-3, 1.00001e-3, 0.0316, 0.031622, 0.031623,
           0.0632, 0.063245, 0.063246, 0.1, 1.0, PI / 2, PI - 1e-6, PI, PI + 1e-6, 4.0, 2 * PI - 0.06]
    th = np.array(ths)
    rng = np.random.default_rng(11)
    ax = O.random_axes(rng, len(th))
    ax[0] = [1, 0, 0]
    if isinstance(spec, SO3Spec):
        return ax * th[:, None]
    if isinstance(spec, SE3Spec):
        T = TRANS_CORPUS[np.arange(len(th)) % len(TRANS_CORPUS)] * np.array([1e-3, 1, 1])
        T = TRANS_CORPUS[np.arange(len(th)) % len(TRANS_CORPUS)]
        return np.concatenate([np.clip(T, -1e3, 1e3), ax * th[:, None]], axis=1)
    if isinstance(spec, SE23Spec):
        T = np.clip(TRANS_CORPUS[np.arange(len(th)) % len(TRANS_CORPUS)], -1e3, 1e3)
        V = np.clip(TRANS_CORPUS[(np.arange(len(th)) * 2 + 1) % len(TRANS_CORPUS)], -1e3, 1e3)
        return np.concatenate([T, V, ax * th[:, None]], axis=1)
    if isinstance(spec, SO2Spec):
        return np.concatenate([th, -th])[:, None]
    if isinstance(spec, SE2Spec):
        t2 = np.concatenate([th, -th])
        T = np.clip(TRANS_CORPUS[np.arange(len(t2)) % len(TRANS_CORPUS)][:, :2], -1e3, 1e3)
        return np.concatenate([T, t2[:, None]], axis=1)
    if isinstance(spec, RnSpec):
        return np.concatenate([np.clip(np.tile(TRANS_CORPUS, (1, 2))[:, : spec.k], -1e3, 1e3), np.ones((1, spec.k))])
    if isinstance(spec, ProductSpec):
        cs = [algebra_corpus(p) for p in spec.parts]
        L = max(len(c) for c in cs)
        return np.concatenate([c[np.arange(L) % len(c)] for c in cs], axis=1)
    raise TypeError(spec)


def configs_for_shard(specs, ctx):
    return [s for i, s in enumerate(specs) if i % ctx.nshards == ctx.shard]


def run_contract_slice(ctx, specs, n, ops):
    """direct numeric (DM) calls through the operators with icontract post-conditions installed on
    the real class methods"""
    from .. import contracts as K

    K.install()
    rng = ctx.rng("contracts")
    try:
        for spec in specs:
            try:
                G = spec.lib()
            except Exception:
                continue
            # incl. elements a hair away from the identity (constant folding / tolerance-based simplifications of numeric
            # expressions only show on this call path)
            A = np.concatenate([group_corpus(spec)[:8], spec.rand(rng, n), spec.rand(rng, max(4, n // 3), hi=2e-3, tlo=1e-9, thi=3e-7)])
            B = np.concatenate([group_corpus(spec)[:8][::-1], spec.rand(rng, n), spec.rand(rng, max(4, n // 3), hi=3.0, tlo=1e-9, thi=3e-7)])
            X = np.concatenate([algebra_corpus(spec)[:8], spec.alg_rand(rng, n, hi=PI - 0.1, thi=10.0), spec.alg_rand(rng, max(4, n // 3), hi=2e-3, tlo=1e-9, thi=3e-7)])
            for k in range(len(A)):
                try:
                    a = G.elem(ca.DM(A[k]))
                    b = G.elem(ca.DM(B[k]))
                    x = G.algebra.elem(ca.DM(X[k]))
                    if "product" in ops:
                        a * b
                        a * b  # a second use of the same element objects: operations must not have side effects
                    if "inverse" in ops:
                        a.inverse()
                    if "identity" in ops and k < 3:
                        G.identity()
                    if "exp" in ops:
                        x.exp(G)
                        x.exp(G)
                    if "log" in ops:
                        a.log()
                    # operands are values: no operation may modify the element it was given (history independence)
                    pa, pb, px = K.num(a.param), K.num(b.param), K.num(x.param)
                    same = (pa is not None and np.array_equal(pa.ravel(), A[k]) and pb is not None and np.array_equal(pb.ravel(), B[k])
                            and px is not None and np.array_equal(px.ravel(), X[k]))
                    ctx.tally("operands_not_modified:" + spec.name)
                    if not same:
                        ctx.violation("operands_not_modified", spec.name, {"X_before": A[k], "X_after": None if pa is None else pa.ravel(),
                                                                            "Y_before": B[k], "Y_after": None if pb is None else pb.ravel()})
                except NotImplementedError:
                    pass
                except Exception as e:  # defects that raise are reported by the driver checks
                    ctx.count("contract_slice_exception:%s:%s" % (spec.name, type(e).__name__))
            for name, cls, det in K.drain():
                ctx.violation("contract_" + name, cls, det)
    finally:
        K.uninstall()
    for op, st in K.STATS.items():
        ctx.count("contract_evaluated:" + op, st["evaluated"])
        ctx.count("contract_skipped_symbolic:" + op, st["skipped_symbolic"])
        ctx.count("contract_skipped_domain:" + op, st["skipped_domain"])
        ctx.tally("contract:" + op, st["evaluated"])
    for op in ops:
        ctx.require("contract_evaluated:" + op, "(icontract post-condition never evaluated)")


def switch_brackets(ev, lo, hi, max_preds=24):
    """cell-directed inputs: for every comparison node of the expression whose truth value differs
    between the input tuples lo and hi, bisect along the segment down to adjacent doubles and
    return the points on both sides of the switch (list of input tuples)."""
    from ..caseval import bisect_predicate

    lo = [np.asarray(x, dtype=float) for x in lo]
    hi = [np.asarray(x, dtype=float) for x in hi]
    _, pl = ev(*[x[None, :] for x in lo])
    _, ph = ev(*[x[None, :] for x in hi])
    out = []
    diff = np.nonzero(pl[0] != ph[0])[0][:max_preds]
    for k in diff:
        a, b = bisect_predicate(ev, lo, hi, int(k))
        out.append(a)
        out.append(b)
    return out


def algebra_switch_points(ctx, spec, ev, rng, rays=3):
    """algebra vectors on both sides of every switch of ev (single algebra input), on random rays"""
    pts = []
    for _ in range(rays):
        d = spec.alg_rand(rng, 1, hi=1.0, thi=10.0)[0]
        ang = spec.alg_angle(d[None, :])[0]
        if ang < 1e-2:  # dividing by a tiny angle would blow the translational part up to 1e60 (seen at seed 2: the
            continue    # reference expm then loses relative accuracy and the check alarmed on correct code)
        d = d / ang
        # keep translations O(1): scale only makes sense for the rotation part, so scale whole vector
        for lo_s, hi_s in ((1e-5, 0.5), (0.5, 3.0)):
            try:
                for p in switch_brackets(ev, [d * lo_s], [d * hi_s]):
                    pts.append(p[0])
            except Exception:
                pass
    ctx.count("switch_bracket_points", len(pts))
    return np.array(pts) if pts else np.zeros((0, spec.na))


# ---------------------------------------------------------------------------------------------------------------------
# call histories with in-place updates of an element's parameter vector (the library's own idiom,
# `X.param[6:9] = r.param` in notebook/ins): an element is its *current* parameter vector -- whatever an operation
# computed earlier for the same object (a cached result) or handed out earlier (a shared vector) must not show.
GROUP_OPS = {
    "to_Matrix": lambda G, X, B: X.to_Matrix(),
    "inverse": lambda G, X, B: X.inverse().param,
    "product": lambda G, X, B: ca.vertcat((X * B).param, (B * X).param),
    "log": lambda G, X, B: X.log().param,
    "Ad": lambda G, X, B: X.Ad(),
    "group_jacobians": lambda G, X, B: ca.vertcat(X.left_jacobian(), X.right_jacobian()),
}
ALGEBRA_OPS = {
    "exp": lambda G, x, y: x.exp(G).param,
    "alg_to_Matrix": lambda G, x, y: x.to_Matrix(),
    "ad": lambda G, x, y: x.ad(),
    "bracket": lambda G, x, y: ca.vertcat((x * y).param, (y * x).param) if hasattr(type(x), "__mul__") else ca.DM(0),
    "jacobians": lambda G, x, y: ca.vertcat(x.left_jacobian(), x.right_jacobian(), x.left_jacobian_inv(), x.right_jacobian_inv()),
}


def _val(K, v):
    a = K.num(v)
    return None if a is None else a.ravel()


def inplace_history(ctx, specs, n, ops):
    """for every op: evaluate it on an element, overwrite the element's parameter vector in place (same SX object),
    evaluate again -> must equal the op on a fresh element holding the new vector; results handed out earlier are
    overwritten in place too -> operands and later results must not change; same for the group's identity."""
    from .. import contracts as K

    rng = ctx.rng("inplace")
    for spec in specs:
        try:
            G = spec.lib()
        except Exception:
            continue
        P = spec.rand(rng, 2 * n + 2)
        Xa = spec.alg_rand(rng, 2 * n + 2, hi=PI - 0.2, thi=5.0)
        npar, nalg = P.shape[1], Xa.shape[1]
        for op in ops:
            if op == "identity":
                continue
            is_group = op in GROUP_OPS
            fn = GROUP_OPS[op] if is_group else ALGEBRA_OPS[op]
            site = "%s:%s" % (op, spec.name)
            for k in range(n):
                try:
                    if is_group:
                        mk = lambda p: G.elem(ca.DM(p))
                        p1, p2, other, m = P[2 * k], P[2 * k + 1], G.elem(ca.DM(P[2 * k + 2])), npar
                    else:
                        mk = lambda p: G.algebra.elem(ca.DM(p))
                        p1, p2, other, m = Xa[2 * k], Xa[2 * k + 1], G.algebra.elem(ca.DM(Xa[2 * k + 2])), nalg
                    X = mk(p1)
                    r1 = _val(K, fn(G, X, other))
                    if r1 is None:
                        continue
                    if is_group or k % 2 == 0:
                        X.param[0:m] = ca.DM(p2)  # whole vector, same SX object
                        pnew = p2
                    else:
                        i = int(rng.integers(0, m)); j = int(rng.integers(i + 1, m + 1))
                        X.param[i:j] = ca.DM(p2[i:j])  # a block, as the INS notebook does
                        pnew = p1.copy(); pnew[i:j] = p2[i:j]
                    r2 = _val(K, fn(G, X, other))
                    rf = _val(K, fn(G, mk(pnew), other))
                    ctx.tally("inplace_update_then_call:" + site)
                    ctx.tally("inplace_op:" + op)
                    if r2 is None or rf is None or r2.shape != rf.shape or not np.allclose(r2, rf, rtol=1e-12, atol=1e-300, equal_nan=True):
                        ctx.violation("inplace_update_then_call", site, {"param_before": p1, "param_after": pnew, "result_after_update": r2, "result_on_fresh_element": rf,
                                                                       "result_before_update": r1})
                    # a result handed out earlier is the caller's: writing into it changes neither operand nor later results
                    if op in ("inverse", "log", "exp", "product"):
                        Y = mk(pnew)
                        R = {"inverse": lambda: Y.inverse(), "log": lambda: Y.log(), "exp": lambda: Y.exp(G), "product": lambda: Y * other}[op]
                        first = R()
                        v1 = _val(K, first.param)
                        first.param[0:first.param.shape[0]] = ca.DM(np.full(first.param.shape[0], 0.123))
                        v2 = _val(K, R().param)
                        py = _val(K, Y.param)
                        ctx.tally("result_is_callers_own:" + site)
                        if v1 is None or v2 is None or not np.array_equal(v1, v2) or py is None or not np.array_equal(py, pnew):
                            ctx.violation("result_is_callers_own", site, {"param": pnew, "first_result": v1, "second_result_after_overwriting_first": v2, "operand_after": py})
                except NotImplementedError:
                    break
                except AttributeError:
                    break  # op not offered by this group (e.g. group Jacobians)
                except Exception as e:
                    ctx.count("inplace_history_exception:%s:%s" % (site, type(e).__name__))
                    break
        if "identity" in ops or "to_Matrix" in ops:
            try:
                M0 = _val(K, G.identity().to_Matrix())
                for k in range(3):
                    I = G.identity()
                    I.param[0:npar] = ca.DM(P[k])  # build another element out of the identity, in place
                    M1 = _val(K, G.identity().to_Matrix())
                    ctx.tally("identity_after_inplace_reuse:" + spec.name)
                    if M0 is None or M1 is None or not np.array_equal(M0, M1):
                        ctx.violation("identity_after_inplace_reuse", spec.name, {"overwritten_with": P[k], "identity_matrix_before": M0, "identity_matrix_after": M1})
                        break
            except NotImplementedError:
                pass
            except Exception as e:
                ctx.count("inplace_history_exception:identity:%s:%s" % (spec.name, type(e).__name__))
    for op in ops:
        if op != "identity":
            ctx.require("inplace_op:" + op, "(in-place history monitor never evaluated)")


# ---------------------------------------------------------------------------------------------------------------------
# the same element / vector handed over in a structurally sparse container (ca.SX(n,1) filled entry by entry, ca.sparsify of a
# DM with exact zeros, a Jacobian column): a parameter vector is its dense content, whatever the container stores
def structured_params(spec, rng):
    from ..groups import SO3Spec, SE3Spec, SE23Spec, SE2Spec, SO2Spec, RnSpec, EulerSeqSpec
    ang = rng.uniform(0.2, 2.8, 6) * rng.choice([-1.0, 1.0], 6)
    ax = np.eye(3)[[0, 1, 2, 0, 1, 2]]
    if isinstance(spec, EulerSeqSpec) or (isinstance(spec, SO3Spec) and spec.kind == "euler"):
        a, b, c = ang[0], ang[1] * 0.4, ang[2]
        return np.array([[a, 0, 0], [0, b, 0], [0, 0, c], [a, 0, c], [0, b, c], [a, b, 0]])
    if isinstance(spec, SO3Spec):
        if spec.kind == "quat":
            return O.axang_to_quat(ax, ang)
        if spec.kind == "mrp":
            return ax * np.tan(ang / 4)[:, None]
        return O.dcm_param(O.rodrigues(ax * ang[:, None]))
    if isinstance(spec, (SE3Spec, SE23Spec)):
        R = structured_params(spec.so3, rng)
        nt = spec.n - spec.so3.n
        T = rng.normal(size=(len(R), nt))
        for k in range(len(R)):
            T[k, rng.choice(nt, size=int(rng.integers(1, nt)), replace=False)] = 0.0
        return np.concatenate([T, R], axis=1)
    if isinstance(spec, SE2Spec):
        return np.array([[0.7, 0.0, 1.1], [0.0, -0.4, -2.0], [0.3, 0.9, 0.0], [0.0, 0.0, 0.5]])
    if isinstance(spec, SO2Spec):
        return np.array([[0.0], [1.3]])
    if isinstance(spec, RnSpec):
        P = rng.normal(size=(4, spec.n))
        for k in range(4):
            P[k, rng.choice(spec.n, size=int(rng.integers(1, spec.n + 1)), replace=False)] = 0.0
        return P
    return np.zeros((0, spec.n))


def sparse_param_form(ctx, specs, ops):
    from .. import contracts as K

    rng = ctx.rng("sparse_form")
    for spec in specs:
        try:
            G = spec.lib()
        except Exception:
            continue
        P = structured_params(spec, rng)
        if not len(P):
            continue
        other_p = spec.rand(rng, 1)[0]
        Xa = spec.alg_rand(rng, 6, hi=2.0, thi=2.0)
        for k in range(len(Xa)):
            Xa[k, rng.choice(spec.na, size=int(rng.integers(1, spec.na + 1)), replace=False)] = 0.0
        for op in ops:
            if op == "identity":
                continue
            is_group = op in GROUP_OPS
            fn = GROUP_OPS[op] if is_group else ALGEBRA_OPS[op]
            site = "%s:%s" % (op, spec.name)
            for p in (P if is_group else Xa):
                try:
                    mk = (lambda v: G.elem(v)) if is_group else (lambda v: G.algebra.elem(v))
                    other = G.elem(ca.DM(other_p)) if is_group else G.algebra.elem(ca.DM(Xa[0]))
                    dense = _val(K, fn(G, mk(ca.DM(p)), other))
                    sp1 = _val(K, fn(G, mk(ca.sparsify(ca.DM(p))), other))
                    sx = ca.SX(len(p), 1)
                    for i, v in enumerate(p):
                        if v != 0:
                            sx[i] = float(v)
                    sp2 = _val(K, fn(G, mk(sx), other))
                    ctx.tally("sparse_container_same_value:" + site)
                    ctx.tally("sparse_op:" + op)
                    ok = dense is not None and all(r is not None and r.shape == dense.shape and np.allclose(r, dense, rtol=1e-13, atol=1e-300, equal_nan=True) for r in (sp1, sp2))
                    if not ok:
                        ctx.violation("sparse_container_same_value", site, {"param": p, "dense": dense, "sparsified_DM": sp1, "SX_filled_entry_by_entry": sp2})
                        break
                except (NotImplementedError, AttributeError):
                    break
                except Exception as e:
                    ctx.violation("sparse_container_same_value", site, {"param": p, "exception": "%s: %s" % (type(e).__name__, str(e)[:200])})
                    break
    for op in ops:
        if op != "identity":
            ctx.require("sparse_op:" + op, "(sparse-container monitor never evaluated)")
