"""C08 -- strapdown INS propagation on SE_2(3) is the exact flow of the IMU kinematics."""
from __future__ import annotations

import numpy as np
import casadi as ca

from .. import oracles as O
from ..caseval import Ev
from ..groups import SO3S, SE23Spec
from .lie_common import lib_call

mp = O.mp
PI = np.pi
SHARDS = {"quick": 16, "thorough": 16}
REQUIRED_REACH = ['SE23LieGroup.exp_mixed', 'SE23LieGroup.calculate_N', 'derive_strapdown_ins_propagation']
RULE = ("random initial states (position/velocity log-uniform up to 1e3, any attitude, both quaternion signs), specific force up to "
        "100, |w| in {0, 1e-9..50 rad/s} incl. both sides of the coefficient switches (bisected), g in [0,20], dt in [0, 2] s incl. 0; "
        "reference: closed-form solution of p'=v, v'=Ra-g e3, R'=R[w]x (series S1,S2 summed to 1e-60 in mpmath on a sub-sample, the "
        "same closed form in double with stable coefficients for volume, the two cross-checked); histories: 1-200 random steps with "
        "piecewise-constant inputs vs the oracle, and constant-input step sequences vs one-shot propagation (semigroup); "
        "non-trivial = dt>0 and (w != 0 or a != 0); distinct = hashed (x0,a,w,g,dt)")
ASSUMPTIONS = ["mpmath series as exact reference", "negative dt excluded"]


def S_coeffs(th):
    """(1-cos)/th^2, (th-sin)/th^3, (th^2/2+cos-1)/th^4 stable in double"""
    th = np.abs(np.asarray(th, dtype=float))  # the coefficients are even functions of th (negative steps)
    small = th < 0.05
    t = np.where(small, 1.0, th)
    t2 = th * th
    c1 = np.where(small, 0.5 - t2 / 24 + t2**2 / 720 - t2**3 / 40320 + t2**4 / 3628800, 2 * np.sin(t / 2) ** 2 / t**2)
    c2 = np.where(small, 1 / 6 - t2 / 120 + t2**2 / 5040 - t2**3 / 362880 + t2**4 / 39916800, (t - np.sin(t)) / t**3)
    c3 = np.where(small, 1 / 24 - t2 / 720 + t2**2 / 40320 - t2**3 / 3628800 + t2**4 / 479001600, (t2 / 2 - 2 * np.sin(t / 2) ** 2) / t**4)
    return c1, c2, c3


def oracle_np(p0, v0, R0, a, w, g, dt):
    """batch closed-form flow in double"""
    th = np.linalg.norm(w, axis=1) * dt
    c1, c2, c3 = S_coeffs(th)
    W = O.hat3(w) * dt[:, None, None]
    I = np.eye(3)
    S1 = dt[:, None, None] * (I + c1[:, None, None] * W + c2[:, None, None] * (W @ W))
    S2 = (dt**2)[:, None, None] * (I / 2 + c2[:, None, None] * W + c3[:, None, None] * (W @ W))
    e3 = np.array([0, 0, 1.0])
    R1 = R0 @ O.rodrigues(w * dt[:, None])
    v1 = v0 + np.einsum("nij,nj->ni", R0 @ S1, a) - (g * dt)[:, None] * e3
    p1 = p0 + v0 * dt[:, None] + np.einsum("nij,nj->ni", R0 @ S2, a) - (g * dt**2 / 2)[:, None] * e3
    return p1, v1, R1


def oracle_mp(p0, v0, R0, a, w, g, dt):
    mp.mp.dps = 60
    W = O.mp_hat3([mp.mpf(float(t)) for t in w])
    dt = mp.mpf(float(dt))
    I = mp.eye(3)
    S1 = mp.zeros(3)
    S2 = mp.zeros(3)
    T = I * dt  # W^k dt^(k+1)/(k+1)!
    U = I * dt * dt / 2  # W^k dt^(k+2)/(k+2)!
    k = 0
    eps = mp.mpf(10) ** (-60)
    while True:
        S1 += T
        S2 += U
        k += 1
        T = T * W * dt / (k + 1)
        U = U * W * dt / (k + 2)
        if max(abs(T[i, j]) for i in range(3) for j in range(3)) < eps and max(abs(U[i, j]) for i in range(3) for j in range(3)) < eps:
            break
        if k > 2000:
            break
    R0m = mp.matrix(R0.tolist())
    am = mp.matrix([float(t) for t in a])
    e3 = mp.matrix([0, 0, 1])
    g = mp.mpf(float(g))
    R1 = R0m * O.mp_expm_series(W * dt)
    v1 = mp.matrix([float(t) for t in v0]) + R0m * S1 * am - g * dt * e3
    p1 = mp.matrix([float(t) for t in p0]) + mp.matrix([float(t) for t in v0]) * dt + R0m * S2 * am - g * dt * dt / 2 * e3
    f = lambda M: np.array([float(M[i]) for i in range(3)])
    return f(p1), f(v1), O.mp_to_np(R1)


def gen_inputs(rng, N):
    p0 = O.signed_loguniform(rng, 1e-3, 1e3, (N, 3))
    v0 = O.signed_loguniform(rng, 1e-3, 1e2, (N, 3))
    q0 = SO3S["quat"].rand(rng, N)
    a = O.random_axes(rng, N) * np.where(rng.random(N) < 0.05, 0.0, O.loguniform(rng, 1e-3, 100, N))[:, None]
    wn = O.loguniform(rng, 1e-9, 50, N)
    u = rng.random(N)
    wn[u < 0.05] = 0.0
    m = (u >= 0.05) & (u < 0.15)
    wn[m] = O.loguniform(rng, 1e-300, 1e-9, m.sum())
    w = O.random_axes(rng, N) * wn[:, None]
    g = rng.uniform(0, 20, N)
    g[rng.random(N) < 0.3] = 9.8
    dt = O.loguniform(rng, 1e-4, 2.0, N)
    dt[rng.random(N) < 0.03] = 0.0
    dt[rng.random(N) < 0.08] *= -1.0  # "for any dt": the flow is a group, a negative step is the inverse flow
    # attitudes with scalar part exactly 0 (half turns), kept there by dt = 0, zero rate or a rate perpendicular to the axis
    k = min(N // 20, 200)
    if k >= 6:
        ax = np.concatenate([np.eye(3), np.array([[0.6, 0.8, 0.0], [0.0, -0.6, 0.8], [0.8, 0.0, 0.6]]), O.random_axes(rng, max(0, k - 6))])[:k]
        ax[6:, 2] = 0.0
        ax /= np.linalg.norm(ax, axis=1, keepdims=True)
        q0[:k] = np.concatenate([np.zeros((k, 1)), ax], axis=1) * rng.choice([-1.0, 1.0], (k, 1))
        mode = rng.integers(0, 3, k)
        dt[:k] = np.where(mode == 0, 0.0, dt[:k])
        w[:k] = np.where((mode == 1)[:, None], 0.0, w[:k])
        perp = np.cross(ax, O.random_axes(rng, k))
        w[:k] = np.where((mode == 2)[:, None], perp * np.linalg.norm(w[:k], axis=1, keepdims=True), w[:k])
    return p0, v0, q0, a, w, g, dt


def build_funcs(ctx):
    """the shipped strapdown function + exp_mixed on every SO(3) parameterisation"""
    import cyecca.lie as L
    from cyecca.models import rdd2
    out = {}
    f = lib_call(ctx, "derive", "strapdown_ins_propagate", lambda: rdd2.derive_strapdown_ins_propagation()["strapdown_ins_propagate"])
    if f is not None:
        x0, a, w, g, dt = ca.SX.sym("x0", 10), ca.SX.sym("a", 3), ca.SX.sym("w", 3), ca.SX.sym("g"), ca.SX.sym("dt")
        out["strapdown_ins_propagate"] = (SE23Spec(SO3S["quat"]), Ev("ins", [x0, a, w, g, dt], [f(x0, a, w, g, dt)]))
    for kind in ("quat", "mrp", "dcm", "euler"):
        spec = SE23Spec(SO3S[kind])
        G = lib_call(ctx, "lib", spec.name, spec.lib)
        if G is None:
            continue

        def mk(G=G, spec=spec):
            x0, a, w, g, dt = ca.SX.sym("x0", spec.n), ca.SX.sym("a", 3), ca.SX.sym("w", 3), ca.SX.sym("g"), ca.SX.sym("dt")
            l = L.se23.elem(ca.vertcat(0, 0, 0, a, w))
            r = L.se23.elem(ca.vertcat(0, 0, 0, 0, 0, -g, 0, 0, 0))
            B = ca.sparsify(ca.SX([[0, 1], [0, 0]]))
            X1 = G.exp_mixed(G.elem(x0), l * dt, r * dt, B * dt)
            return Ev("mixed", [x0, a, w, g, dt], [X1.param])

        ev = lib_call(ctx, "exp_mixed", spec.name, mk)
        if ev is not None:
            out["exp_mixed:" + spec.name] = (spec, ev)
    return out


def compare(ctx, site, spec, ev, p0, v0, q0, a, w, g, dt, ref, sub="flow"):
    so3 = spec.so3
    R0 = O.quat_to_R(q0)
    rng = np.random.default_rng(5)
    rot = q0 if so3.kind == "quat" else so3.from_R(R0, rng)
    R0 = so3.mat(rot)  # the rotation actually handed to the library
    x0 = np.concatenate([p0, v0, rot], axis=1)
    (X1,), pr = ev(x0, a, w, g, dt)
    ctx.cells_from(sub + ":" + site, pr)
    X1 = X1[:, :, 0]
    p1, v1, R1 = ref(p0, v0, R0, a, w, g, dt)
    if so3.kind == "euler":
        # Euler angles inside the +-1e-3 gimbal band are outside the documented domain, for the state handed in as well
        # as for the result (found by the thorough tier: an initial pitch of -pi/2 + 8.6e-4 lost 1e-3 in the conversion)
        ok = (so3.gimbal_dist(R1) > 2.5e-3) & (so3.gimbal_dist(R0) > 2.5e-3)
        ctx.skip("euler_gimbal_band:" + site, int((~ok).sum()))
    else:
        ok = np.ones(len(dt), bool)
    T = np.abs(dt)
    scale = np.maximum(1, np.maximum(np.abs(p0).max(axis=1) + np.abs(v0).max(axis=1) * T + (np.abs(a).max(axis=1) + g) * T * T,
                                     np.abs(v0).max(axis=1) + (np.abs(a).max(axis=1) + g) * T))
    fin = np.isfinite(X1).all(axis=1)
    ep = np.abs(X1[:, :3] - p1).max(axis=1)
    evv = np.abs(X1[:, 3:6] - v1).max(axis=1)
    eR = np.abs(so3.mat(X1[:, 6:]) - R1).max(axis=(1, 2))
    err = np.where(fin, np.maximum(np.maximum(ep, evv) / scale, eR), np.inf)
    inp = {"x0": x0, "a_b": a, "omega_b": w, "g": g, "dt": dt}
    ctx.check_array(sub, site, err[ok], 1e-9, {k: v[ok] for k, v in inp.items()})
    if so3.kind == "quat":
        ctx.check_array("unit_norm", site, np.abs(np.linalg.norm(X1[:, 6:], axis=1) - 1), 1e-9, inp)
    # dt = 0 is the identity (exact up to the quaternion sign convention: compare parameters)
    z = (dt == 0) & ok
    if z.any():
        e0 = np.maximum(np.abs(X1[z, :6] - x0[z, :6]).max(axis=1), np.abs(so3.mat(X1[z, 6:]) - R0[z]).max(axis=(1, 2)))
        ctx.check_array("dt0_identity", site, e0, 1e-12 * scale[z], {k: v[z] for k, v in inp.items()})
    return x0, X1


def run(ctx):
    N = 4000 if ctx.quick else 150000
    n_mp = 12 if ctx.quick else 400
    rng = ctx.rng("c08")
    funcs = build_funcs(ctx)
    if ctx.shard % 4 == 1:
        numeric_and_named_calls(ctx, ctx.rng("c08:numeric"), 60 if ctx.quick else 1500)
    if ctx.shard % 4 == 2:
        general_exp_mixed(ctx, ctx.rng("c08:general"), 2000 if ctx.quick else 100000)
    ctx.require("flow:strapdown_ins_propagate", "(shipped strapdown function never evaluated)")
    for site, (spec, ev) in funcs.items():
        p0, v0, q0, a, w, g, dt = gen_inputs(rng, N)
        # switch brackets of the coefficient series: bisect |w| at fixed dt=1
        try:
            ax = O.random_axes(rng, 1)[0]
            from .c06 import bracket_thetas
            rot = q0[:1] if spec.so3.kind == "quat" else spec.so3.from_R(O.quat_to_R(q0[:1]), rng)
            x00 = np.concatenate([p0[:1], v0[:1], rot], axis=1)
            mkin = lambda ths: [np.tile(x00, (len(ths), 1)), np.tile(a[:1], (len(ths), 1)), ax[None, :] * np.asarray(ths)[:, None],
                                np.full(len(ths), 9.8), np.ones(len(ths))]
            pairs = bracket_thetas(ev, mkin)
            extra = np.array([t for pr_ in pairs for t in pr_])
            ctx.count("switch_pairs:" + site, len(pairs))
            if len(extra):
                k = len(extra)
                w[:k] = ax[None, :] * extra[:, None]
                dt[:k] = 1.0
        except Exception as e:  # bracketing is best-effort; coverage of both sides is still measured via cells
            ctx.count("bracket_failed:" + site)
        compare(ctx, site, spec, ev, p0, v0, q0, a, w, g, dt, oracle_np)
        ctx.distinct(np.concatenate([p0, v0, q0, a, w, g[:, None], dt[:, None]], axis=1), (dt != 0) & ((np.abs(w).max(axis=1) > 0) | (np.abs(a).max(axis=1) > 0)))
        # mp sub-sample (also cross-checks the double oracle)
        idx = rng.choice(N, n_mp, replace=False)

        def ref_mp(p0_, v0_, R0_, a_, w_, g_, dt_):
            P, V, R = [], [], []
            for i in range(len(dt_)):
                pp, vv, rr = oracle_mp(p0_[i], v0_[i], R0_[i], a_[i], w_[i], g_[i], dt_[i])
                P.append(pp); V.append(vv); R.append(rr)
            P, V, R = np.array(P), np.array(V), np.array(R)
            p1, v1, R1 = oracle_np(p0_, v0_, R0_, a_, w_, g_, dt_)
            sc = np.maximum(1, np.abs(P).max(axis=1) + np.abs(V).max(axis=1))
            ctx.check_array("oracle_selfcheck", "np_vs_mp", np.maximum(np.maximum(np.abs(P - p1).max(axis=1), np.abs(V - v1).max(axis=1)) / sc,
                                                                     np.abs(R - R1).max(axis=(1, 2))), 1e-12, {"dt": dt_, "w": w_})
            return P, V, R

        compare(ctx, site, spec, ev, p0[idx], v0[idx], q0[idx], a[idx], w[idx], g[idx], dt[idx], ref_mp, sub="flow_mp")
        histories(ctx, site, spec, ev, rng, 30 if ctx.quick else 1500)
        ctx.sample({"function": site, "x0": np.concatenate([p0[5], v0[5], q0[5]]), "a_b": a[5], "omega_b": w[5], "g": g[5], "dt": dt[5]})


def numeric_and_named_calls(ctx, rng, n):
    """the same step through the two other call conventions a user has: (a) the group method called with numeric (DM)
    arguments -- constants are folded / sparsified at construction time, which only shows on this path, in particular for
    small increments -- incl. a run of small steps against one long step; (b) the shipped Function called by argument name."""
    import cyecca.lie as L
    from cyecca.models import rdd2
    for kind in ("quat", "mrp"):
        spec = SE23Spec(SO3S[kind])
        so3 = spec.so3
        site = "exp_mixed:" + spec.name
        try:
            G = spec.lib()
        except Exception:
            continue
        p0, v0, q0, a, w, g, dt = gen_inputs(rng, n)
        # small increments: a*dt, g*dt and dt itself range over 1e-12 .. 1
        a = O.random_axes(rng, n) * O.loguniform(rng, 1e-6, 10, n)[:, None]
        dt = O.loguniform(rng, 1e-7, 1.0, n)
        g = np.where(rng.random(n) < 0.5, 9.8, O.loguniform(rng, 1e-6, 20, n))
        p0 = p0 * 1e-3
        v0 = v0 * 1e-3
        R0 = O.quat_to_R(q0)
        rot = q0 if kind == "quat" else so3.from_R(R0, rng)
        R0 = so3.mat(rot)
        B0 = ca.sparsify(ca.SX([[0, 1], [0, 0]]))
        X1 = np.full((n, spec.n), np.nan)

        def step(x, a_, w_, g_, dt_):
            l = L.se23.elem(ca.DM(np.r_[0, 0, 0, a_ * dt_, w_ * dt_]))
            r = L.se23.elem(ca.DM(np.r_[0, 0, 0, 0, 0, -g_ * dt_, 0, 0, 0]))
            return np.array(ca.DM(G.exp_mixed(G.elem(ca.DM(x)), l, r, B0 * dt_).param).full()).ravel()

        # the same step through the element's own method (X0.exp_mixed(l, r, B)): same value as the group-level call
        try:
            k0 = 0
            l0 = L.se23.elem(ca.DM(np.r_[0, 0, 0, a[k0] * dt[k0], w[k0] * dt[k0]]))
            r0 = L.se23.elem(ca.DM(np.r_[0, 0, 0, 0, 0, -g[k0] * dt[k0], 0, 0, 0]))
            via_elem = np.array(ca.DM(G.elem(ca.DM(np.r_[p0[k0], v0[k0], rot[k0]])).exp_mixed(l0, r0, B0 * dt[k0]).param).full()).ravel()
            via_group = step(np.r_[p0[k0], v0[k0], rot[k0]], a[k0], w[k0], g[k0], dt[k0])
            ctx.check("element_method_equals_group_method", site, bool(np.array_equal(via_elem, via_group)), {"element": via_elem, "group": via_group})
        except Exception as e:
            ctx.check("element_method_equals_group_method", site, False, {"exception": "%s: %s" % (type(e).__name__, str(e)[:200])})
        for i in range(n):
            try:
                X1[i] = step(np.r_[p0[i], v0[i], rot[i]], a[i], w[i], g[i], dt[i])
            except Exception as e:
                ctx.count("numeric_call_exception:%s:%s" % (site, type(e).__name__))
        p1, v1, R1 = oracle_np(p0, v0, R0, a, w, g, dt)
        fin = np.isfinite(X1).all(axis=1)
        # absolute on purpose: position/velocity here are O(1e-3..1), an increment lost below 1e-6 must show
        sc = np.maximum(1e-3, np.abs(p1).max(axis=1) + np.abs(v1).max(axis=1))
        err = np.where(fin, np.maximum(np.maximum(np.abs(X1[:, :3] - p1).max(axis=1), np.abs(X1[:, 3:6] - v1).max(axis=1)) / sc,
                                       np.abs(so3.mat(X1[:, 6:]) - R1).max(axis=(1, 2))), np.inf)
        ctx.check_array("numeric_call_flow", site, err, 1e-9, {"x0": np.concatenate([p0, v0, rot], axis=1), "a_b": a, "omega_b": w, "g": g, "dt": dt})
        # many small numeric steps against the oracle's single long step
        for h in range(max(1, n // 20)):
            m = int(rng.integers(50, 400))
            dts = float(O.loguniform(rng, 1e-4, 3e-3, 1)[0])
            a0 = O.random_axes(rng, 1)[0] * float(O.loguniform(rng, 1e-5, 1e-2, 1)[0])
            w0 = O.random_axes(rng, 1)[0] * float(O.loguniform(rng, 1e-3, 1.0, 1)[0])
            g0 = float(rng.choice([0.0, 9.8, 1e-4]))
            x = np.r_[p0[h], v0[h], rot[h]]
            try:
                for _ in range(m):
                    x = step(x, a0, w0, g0, dts)
            except Exception as e:
                ctx.count("numeric_call_exception:%s:%s" % (site, type(e).__name__))
                continue
            pe, ve, Re = oracle_np(p0[h:h + 1], v0[h:h + 1], R0[h:h + 1], a0[None], w0[None], np.array([g0]), np.array([m * dts]))
            sc = max(1e-3, np.abs(pe).max() + np.abs(ve).max())
            e = max(np.abs(x[:3] - pe[0]).max() / sc, np.abs(x[3:6] - ve[0]).max() / sc, np.abs(so3.mat(x[None, 6:]) - Re).max())
            ctx.check_array("numeric_small_steps_vs_one_long_step", site, [e], 1e-9 * max(1, m / 10), {"steps": [m], "dt": [dts], "a_b": a0[None], "omega_b": w0[None], "g": [g0]})
    # (b) by argument name
    try:
        f = rdd2.derive_strapdown_ins_propagation()["strapdown_ins_propagate"]
    except Exception:
        return
    names = [f.name_in(i) for i in range(f.n_in())]
    ctx.note("strapdown_argument_names", names)
    want = ["x0", "a_b", "omega_b", "g", "dt"]
    if sorted(names) != sorted(want):
        ctx.skip("by_name_call:argument_names_differ")
        return
    p0, v0, q0, a, w, g, dt = gen_inputs(rng, n)
    R0 = O.quat_to_R(q0)
    X1 = np.full((n, 10), np.nan)
    for i in range(n):
        r = f(x0=np.r_[p0[i], v0[i], q0[i]], a_b=a[i], omega_b=w[i], g=g[i], dt=dt[i])
        X1[i] = np.array(r[f.name_out(0)]).ravel()
    p1, v1, R1 = oracle_np(p0, v0, R0, a, w, g, dt)
    scale = np.maximum(1, np.maximum(np.abs(p0).max(axis=1) + np.abs(v0).max(axis=1) * dt + (np.abs(a).max(axis=1) + g) * dt * dt,
                                     np.abs(v0).max(axis=1) + (np.abs(a).max(axis=1) + g) * dt))
    err = np.where(np.isfinite(X1).all(axis=1), np.maximum(np.maximum(np.abs(X1[:, :3] - p1).max(axis=1), np.abs(X1[:, 3:6] - v1).max(axis=1)) / scale,
                                                          np.abs(O.quat_to_R(X1[:, 6:]) - R1).max(axis=(1, 2))), np.inf)
    ctx.check_array("call_by_argument_name", "strapdown_ins_propagate", err, 1e-9, {"x0": np.concatenate([p0, v0, q0], axis=1), "a_b": a, "omega_b": w, "g": g, "dt": dt})


def general_exp_mixed(ctx, rng, N, sub="general_exp_mixed", max_angle=PI - 0.2, kinds=("quat", "mrp", "dcm")):
    """exp_mixed for arbitrary increments (the right increment rotates too, the left one carries v_b, B is any multiple of
    the nilpotent coupling): as 5x5 matrices X1 = expm([[Om_r, A_r],[0,-B]]) X0 expm([[Om_l, A_l],[0,B]]) with A = [a_b, v_b]
    (oracle: scipy expm).  The strapdown use only exercises r without rotation and l without v_b."""
    import cyecca.lie as L

    def alg5(x, b):
        M = np.zeros((len(x), 5, 5))
        M[:, :3, :3] = O.hat3(x[:, 6:9])
        M[:, :3, 3] = x[:, 3:6]
        M[:, :3, 4] = x[:, 0:3]
        M[:, 3, 4] = b
        return M

    for kind in kinds:
        spec = SE23Spec(SO3S[kind])
        so3 = spec.so3
        try:
            G = spec.lib()
        except Exception:
            continue
        x0, l, r, b = ca.SX.sym("x0", spec.n), ca.SX.sym("l", 9), ca.SX.sym("r", 9), ca.SX.sym("b")
        B = ca.SX(2, 2)
        B[0, 1] = b
        ev = lib_call(ctx, sub, spec.name, lambda: Ev("gm", [x0, l, r, b], [G.exp_mixed(G.elem(x0), L.se23.elem(l), L.se23.elem(r), B).param]))
        if ev is None:
            continue
        ang = lambda n_: O.random_axes(rng, n_) * (rng.uniform(0, 1, n_) ** 2 * max_angle)[:, None]
        q0 = SO3S["quat"].rand(rng, N)
        R0 = O.quat_to_R(q0)
        rot = q0 if kind == "quat" else so3.from_R(R0, rng)
        R0 = so3.mat(rot)
        p0, v0 = rng.normal(size=(N, 3)), rng.normal(size=(N, 3))
        ln = np.concatenate([rng.normal(size=(N, 6)) * rng.choice([0.0, 0.1, 1.0], (N, 1)), ang(N)], axis=1)
        rn = np.concatenate([rng.normal(size=(N, 6)) * rng.choice([0.0, 0.1, 1.0], (N, 1)), ang(N) * rng.choice([0.0, 1e-6, 1.0, 1.0], (N, 1))], axis=1)
        bn = rng.choice([0.0, 0.01, 1.0, -0.5], N) * rng.uniform(0.5, 1.5, N)
        (X1,), _ = ev(np.concatenate([p0, v0, rot], axis=1), ln, rn, bn)
        X1 = X1[:, :, 0]
        X0m = np.tile(np.eye(5), (N, 1, 1))
        X0m[:, :3, :3], X0m[:, :3, 3], X0m[:, :3, 4] = R0, v0, p0
        ref = O.expm_batch(alg5(rn, -bn)) @ X0m @ O.expm_batch(alg5(ln, bn))
        okk = np.ones(N, bool)
        sc = np.maximum(1.0, np.abs(ref[:, :3, 3:]).max(axis=(1, 2)))
        fin = np.isfinite(X1).all(axis=1)
        err = np.where(fin, np.maximum(np.maximum(np.abs(X1[:, :3] - ref[:, :3, 4]).max(axis=1), np.abs(X1[:, 3:6] - ref[:, :3, 3]).max(axis=1)) / sc,
                                       np.abs(so3.mat(X1[:, 6:]) - ref[:, :3, :3]).max(axis=(1, 2))), np.inf)
        ctx.check_array(sub, spec.name, err[okk], 1e-9, {"x0": np.concatenate([p0, v0, rot], axis=1)[okk], "l": ln[okk], "r": rn[okk], "b": bn[okk]})


def histories(ctx, site, spec, ev, rng, H):
    """random step sequences: (a) piecewise-constant inputs vs oracle at the end, (b) constant inputs:
    stepping dt_1..dt_n equals one step of sum dt (semigroup)"""
    so3 = spec.so3
    maxerr_a, maxerr_b, lens = [], [], []
    for h in range(H):
        n = int(rng.integers(1, 201)) if h % 3 else int(rng.integers(1, 6))
        p0, v0, q0, a, w, g, dt = gen_inputs(rng, n)
        a = a * 0.1
        w = w * rng.choice([1.0, 0.1, 0.01])
        dt = np.minimum(dt, 0.5)
        gg = float(g[0])
        R = O.quat_to_R(q0[:1])
        rot = q0[:1] if so3.kind == "quat" else so3.from_R(R, rng)
        R = so3.mat(rot)
        x = np.concatenate([p0[:1], v0[:1], rot], axis=1)
        xo_p, xo_v, xo_R = p0[:1].copy(), v0[:1].copy(), R.copy()
        ok = True
        scale = 1.0
        for k in range(n):
            (x1,), _ = ev(x, a[k:k + 1], w[k:k + 1], np.array([gg]), dt[k:k + 1])
            x = x1[:, :, 0]
            xo_p, xo_v, xo_R = oracle_np(xo_p, xo_v, xo_R, a[k:k + 1], w[k:k + 1], np.array([gg]), dt[k:k + 1])
            scale = max(scale, np.abs(xo_p).max(), np.abs(xo_v).max())
            if so3.kind == "euler" and so3.gimbal_dist(xo_R)[0] < 2.5e-3:
                ok = False
                break
        if not ok or not np.isfinite(x).all():
            if ok:
                ctx.check_array("history_vs_oracle", site, [np.inf], 1e-9, {"steps": [n]})
            continue
        e = max(np.abs(x[0, :3] - xo_p[0]).max() / scale, np.abs(x[0, 3:6] - xo_v[0]).max() / scale, np.abs(so3.mat(x[:, 6:]) - xo_R).max())
        ctx.check_array("history_vs_oracle", site, [e], 1e-9 * max(1, n / 10), {"steps": [n], "x0": np.concatenate([p0[:1], v0[:1], rot], axis=1), "g": [gg]})
        lens.append(n)
        # (b) semigroup with constant inputs
        a0, w0 = a[:1], w[:1]
        x = np.concatenate([p0[:1], v0[:1], rot], axis=1)
        for k in range(n):
            (x1,), _ = ev(x, a0, w0, np.array([gg]), dt[k:k + 1])
            x = x1[:, :, 0]
        tot = np.array([dt.sum()])
        (xs,), _ = ev(np.concatenate([p0[:1], v0[:1], rot], axis=1), a0, w0, np.array([gg]), tot)
        xs = xs[:, :, 0]
        Rn, Rs = so3.mat(x[:, 6:]), so3.mat(xs[:, 6:])
        okb = True
        if so3.kind == "euler":
            okb = so3.gimbal_dist(Rs)[0] > 2.5e-3
        sc = max(1.0, np.abs(xs[0, :6]).max())
        e = max(np.abs(x[0, :6] - xs[0, :6]).max() / sc, np.abs(Rn - Rs).max())
        if okb and so3.kind != "euler":
            ctx.check_array("semigroup", site, [e], 1e-9 * max(1, n / 10), {"steps": [n], "total_dt": tot, "a_b": a0, "omega_b": w0, "g": [gg]})
    ctx.note("history_lengths:" + site, {"count": len(lens), "max": int(max(lens)) if lens else 0, "total_steps": int(sum(lens))})
