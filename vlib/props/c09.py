"""C09 -- generated C code computes the same functions as the symbolic models.
Differential execution of the really generated code under clang ASan+UBSan (valgrind memcheck in the
thorough tier) against the CasADi VM, plus symbol / ABI monitors and generator-option sweeps."""
from __future__ import annotations

import contextlib
import io
import itertools
import os
import re
import shutil
import subprocess
import sys

import numpy as np
import casadi as ca

from .. import cdriver
from .. import core
from ..caseval import find_cmp
from .lie_common import lib_call

SHARDS = {"quick": 16, "thorough": 16}
TIMEOUT = {"quick": 1500, "thorough": 8 * 3600}
REQUIRED_REACH = ['generate_code', 'derive_control_allocation', 'derive_ref', 'derive_mr_ref_traj']
RULE = ("programs = every C function emitted by every shipped generation entry point (python -m cyecca.models.{rdd2,rdd2_loglinear,"
        "bezier}, the three model generate_code functions, cyecca.codegen.generate_code and algorithms.generate_code on the estimator/"
        "simulator/reference-trajectory sets) plus generator-option variants; inputs per function = random (scales 1e-3..1e2, mixed "
        "signs), all-zero, tiny, huge (1e150), negative, NaN/Inf-poisoned vectors; each case runs in the sanitized C and in the "
        "CasADi VM and must agree (same NaN pattern, |d| <= 1e-12 scale); branch cells of the source Function observed per case; "
        "non-trivial = case with at least one non-zero finite input; distinct = hashed (function, inputs)")
ASSUMPTIONS = ["clang ASan+UBSan / valgrind reports are trusted; absence of a report is not memory safety",
               "the C and the CasADi VM share libm; -ffp-contract=off so that fused multiply-adds cannot blur the comparison",
               "mex output is checked textually only (no mex.h here)"]

# functions each shipped file must export (superset allowed: adding a function is not an alarm, dropping/renaming one is)
PINNED = {
    "rdd2.c": ["attitude_rate_control", "attitude_control", "position_control", "input_acro", "input_auto_level", "input_velocity",
               "strapdown_ins_propagate", "control_allocation", "rotate_vector_w_to_b", "rotate_vector_wbto_w"],
    "rdd2_loglinear.c": ["so3_attitude_control", "se23_position_control", "se23_attitude_control", "se23_error"],
    "bezier.c": ["bezier7_solve", "bezier7_traj", "bezier3_solve", "bezier3_traj", "dcm_to_quat", "f_ref", "bezier_multirotor"],
    "casadi_mrp.c": ["init", "predict", "correct_mag", "correct_accel", "get_state", "constants"],
    "casadi_sim.c": ["simulate", "measure_gyro", "measure_accel", "measure_mag", "constants", "get_state", "rotation_error"],
    "mrp.c": ["init", "predict", "correct_mag", "correct_accel", "get_state", "constants"],
    "sim.c": ["simulate", "measure_gyro", "measure_accel", "measure_mag", "constants", "get_state", "rotation_error"],
    "mr_ref_traj.c": ["mr_ref_traj"],
}
BASE_OPTS = {"verbose": True, "mex": False, "cpp": False, "main": False, "with_header": True, "with_mem": False,
             "with_export": False, "with_import": False, "include_math": True, "avoid_stack": True}


def quiet():
    return contextlib.redirect_stdout(io.StringIO())


def casadi_include():
    return os.path.join(os.path.dirname(ca.__file__), "include")


def module_functions(mod):
    """all Functions a models module can derive, by Function name (reference for the generated code)"""
    out = {}
    for n in dir(mod):
        if n.startswith("derive_") and callable(getattr(mod, n)):
            try:
                with quiet():
                    r = getattr(mod, n)()
                if isinstance(r, dict):
                    for v in r.values():
                        if isinstance(v, ca.Function):
                            out[v.name()] = v
            except Exception:
                pass
    return out


def gen_cases(rng, f, n):
    cases = []
    for _ in range(n):
        mode = rng.choice(["rand", "rand", "rand", "unit", "zero", "tiny", "huge", "neg", "nan"], p=[0.25, 0.2, 0.15, 0.1, 0.08, 0.06, 0.06, 0.05, 0.05])
        ins = []
        for i in range(f.n_in()):
            k = f.nnz_in(i)
            if mode == "rand":
                v = rng.normal(size=k) * 10 ** rng.uniform(-3, 2)
            elif mode == "unit":
                v = rng.normal(size=k)
                v = v / max(np.linalg.norm(v), 1e-300)
            elif mode == "zero":
                v = np.zeros(k)
            elif mode == "tiny":
                v = rng.normal(size=k) * 10 ** rng.uniform(-310, -8)
            elif mode == "huge":
                v = rng.normal(size=k) * 1e150
            elif mode == "neg":
                v = -np.abs(rng.normal(size=k)) * 10 ** rng.uniform(-2, 1)
            else:
                v = np.where(rng.random(k) < 0.3, rng.choice([np.nan, np.inf, -np.inf], k), rng.normal(size=k))
            ins.append(np.asarray(v, dtype=float))
        cases.append(ins)
    return cases


def reference(f, ins):
    args = [ca.DM(f.sparsity_in(i), ins[i]) if f.nnz_in(i) != f.numel_in(i) else ca.DM(np.asarray(ins[i]).reshape(f.size2_in(i), f.size1_in(i)).T) for i in range(f.n_in())]
    r = f.call(args)
    return [np.array(o.nonzeros(), dtype=float) for o in r]


def branch_probe(f):
    try:
        sx = f.sx_in()
        out = f(*sx)
        if not isinstance(out, (list, tuple)):
            out = [out]
        cmps, _ = find_cmp(out, limit=48)
        if not cmps:
            return None
        return ca.Function("probe", sx, [ca.vertcat(*cmps)])
    except Exception:
        return None


def check_file(ctx, site, cfile, funcs, rng, ncase, extra_flags=(), with_mem=False, cxx=False, run=True, expected=None):
    """compile cleanly, check symbols/ABI, run differential cases under sanitizers"""
    work = os.path.dirname(cfile)
    base = os.path.basename(cfile)
    src = open(cfile).read()
    # (2) clean compile of the generated code itself
    obj = os.path.join(work, base + ".o")
    cc = ["g++" if cxx else "gcc", "-Wall", "-Werror", "-c", "-o", obj, cfile] + list(extra_flags)
    r = subprocess.run(cc, capture_output=True, text=True, timeout=900)
    ctx.check("compiles_cleanly", site, r.returncode == 0, {"file": base, "cmd": " ".join(cc[:4]), "stderr": r.stderr[-600:]})
    if r.returncode != 0:
        return
    # (3) exported symbols
    nm = subprocess.run(["nm", "-g", "--defined-only", obj], capture_output=True, text=True).stdout
    syms = [l.split()[-1] for l in nm.splitlines() if l.strip()]
    want = sorted(set(PINNED.get(base, [])) | set(expected if expected is not None else []))
    for name in want:
        ndef = len(re.findall(r"\bint\s+%s\s*\(\s*const\s+casadi_real\s*\*\*" % re.escape(name), src))
        ctx.check("function_exported_once", site, name in syms and ndef == 1, {"file": base, "function": name, "in_symbol_table": name in syms, "definitions_in_text": ndef})
    names = [n for n in want if n in syms and n in funcs]
    missing_ref = [n for n in want if n in syms and n not in funcs]
    if missing_ref:
        ctx.count("exported_without_reference_function:" + site, len(missing_ref))
    if not run or not names:
        return
    exe = os.path.join(work, base + ".asan")
    ok, log = cdriver.build(cfile, names, exe, "asan", extra=extra_flags, with_mem=with_mem, cxx=cxx)
    ctx.check("sanitizer_build", site, ok, {"file": base, "log": log[-600:]})
    if not ok:
        return
    # (4) ABI: arity, names, sparsity
    desc, err = cdriver.describe(exe)
    ctx.check("describe_runs", site, desc is not None, {"file": base, "stderr": err[-400:]})
    if desc is None:
        return
    for n in names:
        f = funcs[n]
        d = desc[n]
        exp_in = [(f.name_in(i), f.size1_in(i), f.size2_in(i), f.nnz_in(i)) for i in range(f.n_in())]
        exp_out = [(f.name_out(i), f.size1_out(i), f.size2_out(i), f.nnz_out(i)) for i in range(f.n_out())]
        ctx.check("signature_matches_function", site, d["n_in"] == f.n_in() and d["n_out"] == f.n_out() and d["in"] == exp_in and d["out"] == exp_out,
                  {"file": base, "function": n, "c": {"in": d["in"], "out": d["out"]}, "casadi": {"in": exp_in, "out": exp_out}})
    # (5) differential execution
    cases, index = [], []
    probes = {}
    for k, n in enumerate(names):
        f = funcs[n]
        probes[n] = branch_probe(f)
        for ins in gen_cases(rng, f, ncase):
            cases.append((k, ins))
            index.append(n)
    rc, out, err = cdriver.run_cases(exe, cases)
    nrep = err.count("ERROR: AddressSanitizer") + err.count("runtime error:") + err.count("ERROR: LeakSanitizer")
    ctx.count("sanitizer_reports:" + site, nrep)
    ctx.check("no_sanitizer_report", site, rc == 0 and nrep == 0, {"file": base, "returncode": rc, "report": err[-1200:]})
    if rc != 0:
        return
    got = np.frombuffer(out, dtype="<f8")
    pos = 0
    X, nt = [], []
    for (k, ins), n in zip(cases, index):
        f = funcs[n]
        ref = reference(f, ins)
        if probes[n] is not None:
            try:
                pv = np.array(probes[n](*[ca.DM(f.sparsity_in(i), ins[i]) for i in range(f.n_in())])).ravel()
                ctx.cell("branch_cells:%s:%s" % (site, n), "".join("1" if (v != 0 and v == v) else "0" for v in pv))
            except Exception:
                pass
        worst, bad = 0.0, None
        for j, rv in enumerate(ref):
            c = got[pos:pos + len(rv)]
            pos += len(rv)
            if len(c) != len(rv):
                bad = ("short output", j)
                break
            nr, nc = np.isnan(rv), np.isnan(c)
            if not np.array_equal(nr, nc):
                bad = ("NaN pattern differs", j, rv.tolist()[:6], c.tolist()[:6])
                continue
            m = ~nr
            if m.any():
                with np.errstate(invalid="ignore", over="ignore"):
                    d = np.abs(c[m] - rv[m])
                    d = np.where(np.isinf(c[m]) & np.isinf(rv[m]) & (c[m] == rv[m]), 0, d)
                    e = np.max(d / np.maximum(1, np.abs(rv[m])))
                worst = max(worst, float(e) if np.isfinite(e) else np.inf)
                if not e <= 1e-12:
                    bad = bad or ("value differs", j, rv[m].tolist()[:6], c[m].tolist()[:6])
        ctx.tally("c_equals_function:%s:%s" % (site, n))
        ctx.residual("c_equals_function:%s:%s" % (site, n), worst / 1e-12)
        if bad:
            ctx.violation("c_equals_function", site + ":" + n, {"file": base, "function": n, "problem": str(bad)[:500], "inputs": [np.asarray(v).tolist() for v in ins]})
        flat = np.concatenate([np.asarray(v).ravel() for v in ins]) if ins else np.zeros(0)
        row = np.zeros(64)
        row[0] = hash(n) & 0xFFFFFF
        row[1:1 + min(63, len(flat))] = np.nan_to_num(flat[:63], nan=1.2345e300, posinf=1e301, neginf=-1e301)
        X.append(row)
        nt.append(bool(np.isfinite(flat).all() and np.any(flat != 0)) if len(flat) else False)
    ctx.check("output_fully_consumed", site, pos == len(got), {"file": base, "consumed": pos, "produced": int(len(got))})
    if X:
        ctx.distinct(np.array(X), np.array(nt))
    ctx.count("c_functions_executed", len(names))
    ctx.count("programs", len(names))
    # thorough: valgrind memcheck on an uninstrumented -O0 build, 1/50 of the workload
    if not ctx.quick:
        exe2 = os.path.join(work, base + ".vg")
        ok, log = cdriver.build(cfile, names, exe2, "plain", extra=extra_flags, with_mem=with_mem, cxx=cxx)
        if ok:
            sub = cases[:: max(1, len(cases) // max(20, len(cases) // 50))]
            rc, out, err = cdriver.run_cases(exe2, sub, runner=["valgrind", "--tool=memcheck", "--error-exitcode=99", "--leak-check=full", "-q"], timeout=3600)
            ctx.check("no_valgrind_report", site, rc == 0, {"file": base, "returncode": rc, "report": err[-1200:]})
            ctx.count("valgrind_cases", len(sub))
    ctx.sample({"file": base, "functions": names, "cases_per_function": ncase})


def run(ctx):
    work = os.path.join(ctx.workdir, "c09-%d" % ctx.shard)
    os.makedirs(work, exist_ok=True)
    rng = ctx.rng("c09")
    ncase = 150 if ctx.quick else 10000
    units = ["main:rdd2", "main:rdd2_loglinear", "main:bezier", "algorithms:mrp", "algorithms:sim", "codegen:mrp", "codegen:sim", "codegen:mr_ref_traj",
             "direct:rdd2", "direct:rdd2_loglinear", "direct:bezier", "sequence:all", "shareddir:all"] + ["options:%d" % i for i in range(5)]
    for i, u in enumerate(units):
        if i % ctx.nshards != ctx.shard:
            continue
        d = os.path.join(work, u.replace(":", "_"))
        os.makedirs(d, exist_ok=True)
        try:
            unit(ctx, u, d, rng, ncase)
        finally:
            shutil.rmtree(d, ignore_errors=True)
    shutil.rmtree(work, ignore_errors=True)


def unit(ctx, u, d, rng, ncase):
    kind, name = u.split(":")
    with quiet():
        from cyecca.models import rdd2, rdd2_loglinear, bezier, mr_ref_traj
        from cyecca.estimate.attitude import algorithms
        from cyecca import codegen
    mods = {"rdd2": rdd2, "rdd2_loglinear": rdd2_loglinear, "bezier": bezier}
    if kind == "main":
        # the shipped command line entry point, run for real (its export list is part of the mechanism)
        env = dict(os.environ)
        env["PYTHONPATH"] = core.REPO + os.pathsep + env.get("PYTHONPATH", "")
        env["MPLBACKEND"] = "Agg"
        r = subprocess.run([sys.executable, "-m", "cyecca.models." + name, d], capture_output=True, text=True, timeout=900, env=env, cwd=d)
        cfile = os.path.join(d, name + ".c")
        ctx.check("generation_succeeds", u, r.returncode == 0 and os.path.exists(cfile), {"entry": "python -m cyecca.models." + name, "stderr": r.stderr[-600:]})
        if os.path.exists(cfile):
            check_file(ctx, u, cfile, module_functions(mods[name]), rng, ncase)
    elif kind == "direct":
        funcs = module_functions(mods[name])
        # the module's own generate_code with the set its __main__ exports (pinned names present in the module)
        sel = {k: v for k, v in funcs.items() if k in PINNED[name + ".c"]}
        ok = lib_call(ctx, "generate_code", u, lambda: (mods[name].generate_code(sel, filename=name + ".c", dest_dir=d), True)[1], not_implemented_ok=False)
        cfile = os.path.join(d, name + ".c")
        ctx.check("generation_succeeds", u, bool(ok) and os.path.exists(cfile), {"entry": "cyecca.models.%s.generate_code" % name})
        if os.path.exists(cfile):
            check_file(ctx, u, cfile, sel, rng, max(30, ncase // 3), expected=list(sel))
    elif kind in ("algorithms", "codegen"):
        with quiet():
            eqs = lib_call(ctx, "derive", "algorithms.eqs", algorithms.eqs, not_implemented_ok=False)
        if eqs is None:
            return
        # the generators take a dictionary of equation sets and must write one file per set: call them the way users
        # do, with several sets at once, and verify every set's file; this unit then executes its own set's file
        if kind == "algorithms":
            sets = dict(eqs)
            ok = lib_call(ctx, "generate_code", u, lambda: (algorithms.generate_code(sets, d), True)[1], not_implemented_ok=False)
            cfile = os.path.join(d, "casadi_%s.c" % name)
            expect_files = ["casadi_%s.c" % n for n in sets]
            wm = True  # shipped default of this generator
        else:
            sets = dict(eqs)
            sets["mr_ref_traj"] = mr_ref_traj.derive_mr_ref_traj()
            order = list(sets)
            k = order.index(name)
            sets = {n: sets[n] for n in order[k:] + order[:k]}  # every unit passes the sets in a different order
            ok = lib_call(ctx, "generate_code", u, lambda: (codegen.generate_code(sets, d), True)[1], not_implemented_ok=False)
            cfile = os.path.join(d, "%s.c" % name)
            expect_files = ["%s.c" % n for n in sets]
            wm = False
        have = sorted(os.listdir(d)) if os.path.isdir(d) else []
        ctx.check("one_file_per_equation_set", u, all(f in have for f in expect_files), {"entry": "%s.generate_code" % kind, "sets": list(sets), "expected": expect_files, "written": have})
        ctx.check("generation_succeeds", u, bool(ok) and os.path.exists(cfile), {"entry": "%s.generate_code" % kind, "set": name})
        if os.path.exists(cfile):
            funcs = {f.name(): f for f in sets[name].values()}
            flags = ["-I", casadi_include()] if wm else []
            check_file(ctx, u, cfile, funcs, rng, ncase, extra_flags=flags, with_mem=wm, expected=list(funcs))
    elif kind == "options":
        option_sweep(ctx, int(name), d, rng, codegen, mods)
    elif kind == "sequence":
        call_sequences(ctx, d, codegen, algorithms, mods)
    elif kind == "shareddir":
        shared_directory(ctx, d, codegen, algorithms, mods, mr_ref_traj)


def option_sweep(ctx, part, d, rng, codegen, mods):
    """every accepted option combination of the generic generator must generate a complete function set;
    combinations that can be built here are compiled and run differentially"""
    with quiet():
        from cyecca.models import bezier
        small = {"b3": bezier.derive_bezier3()}
    funcs = {f.name(): f for f in small["b3"].values()}
    keys = list(BASE_OPTS)
    combos = []
    if ctx.quick:
        combos.append(dict(BASE_OPTS))
        for k in keys:
            o = dict(BASE_OPTS)
            o[k] = not o[k]
            combos.append(o)
        r2 = np.random.default_rng([ctx.seed, 909])
        for _ in range(32):
            combos.append({k: bool(r2.integers(0, 2)) for k in keys})
    else:
        for bits in itertools.product([False, True], repeat=len(keys)):
            combos.append(dict(zip(keys, bits)))
    combos = [c for i, c in enumerate(combos) if i % 5 == part]
    nrun = 0
    for ci, opts in enumerate(combos):
        dd = os.path.join(d, "o%d" % ci)
        os.makedirs(dd, exist_ok=True)
        site = "generic_generator"
        label = ",".join("%s=%d" % (k, opts[k]) for k in keys if opts[k] != BASE_OPTS[k]) or "defaults"
        # option values in the other truthy forms callers use (1 / numpy.bool_): same meaning as True / False
        passed = dict(opts)
        if ci % 3 == 1:
            passed = {k_: int(v_) for k_, v_ in opts.items()}
        elif ci % 3 == 2:
            passed = {k_: np.bool_(v_) for k_, v_ in opts.items()}
        with quiet():
            ok = lib_call(ctx, "generate_code", site, lambda: (codegen.generate_code(small, dd, **passed), True)[1], not_implemented_ok=False)
        files = sorted(os.listdir(dd))
        srcs = [f for f in files if f.endswith((".c", ".cpp"))]
        ctx.check("generation_succeeds_for_option_combination", site, bool(ok) and len(srcs) == 1, {"options": label, "files": files})
        if not ok or len(srcs) != 1:
            shutil.rmtree(dd, ignore_errors=True)
            continue
        text = open(os.path.join(dd, srcs[0])).read()
        for n in funcs:
            ndef = len(re.findall(r"\bint\s+%s\s*\(\s*const\s+casadi_real\s*\*\*" % re.escape(n), text))
            ctx.check("complete_function_set_for_option_combination", site, ndef == 1, {"options": label, "function": n, "definitions": ndef})
        ctx.check("header_written_when_requested", site, (any(f.endswith(".h") for f in files)) == bool(opts["with_header"]), {"options": label, "files": files})
        ctx.cell("option_combinations", label)
        runnable = not opts["mex"] and not opts["main"]
        if runnable and (ctx.quick or nrun < 40 or ci % 8 == 0):
            flags = []
            if not opts["include_math"]:
                flags += ["-include", "math.h"]
            if opts["with_mem"]:
                flags += ["-I", casadi_include()]
            check_file(ctx, "options[%s]" % label, os.path.join(dd, srcs[0]), funcs, rng, 25, extra_flags=flags, with_mem=opts["with_mem"], cxx=opts["cpp"], expected=list(funcs))
            nrun += 1
        shutil.rmtree(dd, ignore_errors=True)
    # the model generators accept the same option set: single toggles on each of them, compiled and run differentially
    # where that is possible here (an option may change how the code is emitted, never what it computes)
    ti = 0
    for mname, mod in mods.items():
        mf = None
        for k in keys:
            ti += 1
            if ti % 5 != part:
                continue
            if mf is None:
                mf = module_functions(mod)
            sel = {k_: v for k_, v in list(mf.items())[:2]}
            o = {k: not BASE_OPTS[k]}
            dd = os.path.join(d, "m_%s_%s" % (mname, k))
            fname = "x.cpp" if o.get("cpp") else "x.c"  # a C++ build names its source accordingly
            with quiet():
                ok = lib_call(ctx, "generate_code", "cyecca.models.%s" % mname, lambda: (mod.generate_code(sel, filename=fname, dest_dir=dd, **o), True)[1], not_implemented_ok=False)
            files = sorted(os.listdir(dd)) if os.path.isdir(dd) else []
            srcs = [f for f in files if f.endswith((".c", ".cpp"))]
            ctx.check("generation_succeeds_for_option_combination", "cyecca.models.%s" % mname, bool(ok) and len(srcs) >= 1, {"options": "%s=%d" % (k, o[k]), "files": files})
            full = dict(BASE_OPTS); full.update(o)
            if ok and len(srcs) == 1 and not full["mex"] and not full["main"]:
                flags = []
                if not full["include_math"]:
                    flags += ["-include", "math.h"]
                if full["with_mem"]:
                    flags += ["-I", casadi_include()]
                by_name = {f.name(): f for f in sel.values()}
                check_file(ctx, "model_options[%s,%s=%d]" % (mname, k, o[k]), os.path.join(dd, srcs[0]), by_name, rng, 15, extra_flags=flags, with_mem=full["with_mem"], cxx=full["cpp"], expected=list(by_name))
            shutil.rmtree(dd, ignore_errors=True)
    if part == 0:
        # ... and every pair of toggles (thorough: every combination): an option pair can fail where each alone works
        for mname, mod in mods.items():
            mf = module_functions(mod)
            sel = {k: v for k, v in list(mf.items())[:1]}
            if ctx.quick:
                combos = [dict([(a, not BASE_OPTS[a]), (b, not BASE_OPTS[b])]) for i, a in enumerate(keys) for b in keys[i + 1:]]
            else:
                combos = [dict(zip(keys, bits)) for bits in itertools.product([False, True], repeat=len(keys))]
            for ci, o in enumerate(combos):
                dd = os.path.join(d, "p_%s_%d" % (mname, ci))
                with quiet():
                    ok = lib_call(ctx, "generate_code", "cyecca.models.%s" % mname, lambda: (mod.generate_code(sel, filename="x.c", dest_dir=dd, **o), True)[1], not_implemented_ok=False)
                files = sorted(os.listdir(dd)) if os.path.isdir(dd) else []
                label = ",".join("%s=%d" % (k, v) for k, v in o.items() if v != BASE_OPTS[k])
                ctx.check("generation_succeeds_for_option_combination", "cyecca.models.%s" % mname, bool(ok) and any(f.endswith((".c", ".cpp")) for f in files), {"options": label, "files": files})
                shutil.rmtree(dd, ignore_errors=True)
        with quiet():
            from cyecca.estimate.attitude import algorithms
            eqs = algorithms.eqs()
        akeys = ["main", "mex", "with_header", "with_mem"]
        adef = {"main": False, "mex": False, "with_header": True, "with_mem": True}
        for bits in itertools.product([False, True], repeat=4):
            o = dict(zip(akeys, bits))
            dd = os.path.join(d, "ap_%s" % "".join(str(int(b)) for b in bits))
            with quiet():
                ok = lib_call(ctx, "generate_code", "algorithms", lambda: (algorithms.generate_code({"sim": eqs["sim"]}, dd, **o), True)[1], not_implemented_ok=False)
            files = sorted(os.listdir(dd)) if os.path.isdir(dd) else []
            ctx.check("generation_succeeds_for_option_combination", "algorithms", bool(ok) and any(f.endswith(".c") for f in files), {"options": ",".join("%s=%d" % (k, v) for k, v in o.items() if v != adef[k]), "files": files})
            shutil.rmtree(dd, ignore_errors=True)
        for k, dflt in (("main", False), ("mex", False), ("with_header", True), ("with_mem", True)):
            dd = os.path.join(d, "a_%s" % k)
            with quiet():
                ok = lib_call(ctx, "generate_code", "algorithms", lambda: (algorithms.generate_code({"sim": eqs["sim"]}, dd, **{k: not dflt}), True)[1], not_implemented_ok=False)
            files = sorted(os.listdir(dd)) if os.path.isdir(dd) else []
            ctx.check("generation_succeeds_for_option_combination", "algorithms", bool(ok) and any(f.endswith(".c") for f in files), {"options": "%s=%d" % (k, not dflt), "files": files})
            shutil.rmtree(dd, ignore_errors=True)


def snapshot(d):
    out = {}
    for f in sorted(os.listdir(d)) if os.path.isdir(d) else []:
        with open(os.path.join(d, f), "rb") as fh:
            out[f] = fh.read()
    return out


def call_sequences(ctx, d, codegen, algorithms, mods):
    """histories of generator calls in one process: what a call emits must depend on its arguments only.
    default call -> calls with other options -> default call again must reproduce the first output byte for byte"""
    with quiet():
        from cyecca.models import bezier
        small = {"b3": bezier.derive_bezier3()}
        eqs = algorithms.eqs()
    flat = {f.name(): f for f in small["b3"].values()}
    gens = {
        "cyecca.codegen.generate_code": (lambda dd, **o: codegen.generate_code(small, dd, **o),
                                         [dict(with_header=False, main=True), dict(with_mem=True, verbose=False), dict(cpp=True, with_export=True)]),
        "algorithms.generate_code": (lambda dd, **o: algorithms.generate_code({"sim": eqs["sim"]}, dd, **o),
                                     [dict(with_header=False, with_mem=False, main=True), dict(mex=True)]),
    }
    for mname, mod in mods.items():
        gens["cyecca.models.%s.generate_code" % mname] = (lambda dd, mod=mod, **o: mod.generate_code(flat, filename="x.c", dest_dir=dd, **o),
                                                          [dict(with_header=False, main=True), dict(with_mem=True), dict(include_math=False, avoid_stack=False)])
    for gname, (g, others) in gens.items():
        d1, d2 = os.path.join(d, "first"), os.path.join(d, "again")
        shutil.rmtree(d1, ignore_errors=True)
        shutil.rmtree(d2, ignore_errors=True)
        with quiet():
            ok = lib_call(ctx, "generate_code", gname, lambda: (g(d1), True)[1], not_implemented_ok=False)
            for k, o in enumerate(others):
                dk = os.path.join(d, "other%d" % k)
                lib_call(ctx, "generate_code", gname, lambda: (g(dk, **o), True)[1], not_implemented_ok=False)
                shutil.rmtree(dk, ignore_errors=True)
            ok2 = lib_call(ctx, "generate_code", gname, lambda: (g(d2), True)[1], not_implemented_ok=False)
        a, b = snapshot(d1), snapshot(d2)
        same = bool(ok) and bool(ok2) and a.keys() == b.keys() and all(a[k] == b[k] for k in a)
        diff = sorted(set(a) ^ set(b)) + [k for k in a if k in b and a[k] != b[k]]
        ctx.check("output_depends_on_arguments_only", gname, same, {"generator": gname, "intervening_calls": [str(o) for o in others], "files_first": sorted(a), "files_again": sorted(b), "differing": diff})
        shutil.rmtree(d1, ignore_errors=True)
        shutil.rmtree(d2, ignore_errors=True)
    # regeneration into the same destination: a later call with different equations (or options) replaces the file -- the
    # destination then holds exactly what the same call writes into an empty directory
    with quiet():
        other = {"b3": bezier.derive_bezier7()}
    flat2 = {f.name(): f for f in other["b3"].values()}
    regen = {
        "cyecca.codegen.generate_code": (lambda dd: codegen.generate_code(small, dd), lambda dd: codegen.generate_code(other, dd)),
        "algorithms.generate_code": (lambda dd: algorithms.generate_code({"sim": eqs["sim"]}, dd), lambda dd: algorithms.generate_code({"sim": eqs["mrp"]}, dd)),
    }
    for mname, mod in mods.items():
        regen["cyecca.models.%s.generate_code" % mname] = (lambda dd, mod=mod: mod.generate_code(flat, filename="x.c", dest_dir=dd),
                                                           lambda dd, mod=mod: mod.generate_code(flat2, filename="x.c", dest_dir=dd))
        regen["cyecca.models.%s.generate_code(options)" % mname] = (lambda dd, mod=mod: mod.generate_code(flat, filename="x.c", dest_dir=dd),
                                                                    lambda dd, mod=mod: mod.generate_code(flat, filename="x.c", dest_dir=dd, main=True, with_header=False))
    for gname, (g1, g2) in regen.items():
        dsame, dfresh = os.path.join(d, "same_dest"), os.path.join(d, "fresh_dest")
        shutil.rmtree(dsame, ignore_errors=True)
        shutil.rmtree(dfresh, ignore_errors=True)
        with quiet():
            ok = lib_call(ctx, "generate_code", gname, lambda: (g1(dsame), True)[1], not_implemented_ok=False)
            ok = lib_call(ctx, "generate_code", gname, lambda: (g2(dsame), True)[1], not_implemented_ok=False) and ok
            ok = lib_call(ctx, "generate_code", gname, lambda: (g2(dfresh), True)[1], not_implemented_ok=False) and ok
        a, b = snapshot(dsame), snapshot(dfresh)
        stale = [k for k in b if a.get(k) != b[k]]
        ctx.check("regeneration_replaces_earlier_output", gname, bool(ok) and not stale, {"generator": gname, "stale_or_missing_files": stale, "destination": sorted(a), "fresh": sorted(b)})
        # the destination given as a pathlib.Path (the generators convert it themselves) produces the same files
        if gname.startswith("algorithms."):
            continue  # its dest_dir is documented and used as a string (dest_dir + os.path.sep); a Path is not an accepted form there
        import pathlib
        dpath = os.path.join(d, "path_dest")
        shutil.rmtree(dpath, ignore_errors=True)
        with quiet():
            okp = lib_call(ctx, "generate_code", gname + "[Path]", lambda: (g2(pathlib.Path(dpath)), True)[1], not_implemented_ok=False)
        c = snapshot(dpath)
        ctx.check("path_destination_same_output", gname, bool(okp) and c.keys() == b.keys() and all(c[k_] == b[k_] for k_ in b), {"generator": gname, "files_with_Path": sorted(c), "files_with_str": sorted(b)})
        shutil.rmtree(dpath, ignore_errors=True)
        shutil.rmtree(dsame, ignore_errors=True)
        shutil.rmtree(dfresh, ignore_errors=True)
    ctx.count("generator_call_histories", len(gens) + len(regen))


def _defined(path, name):
    try:
        return len(re.findall(r"\bint\s+%s\s*\(\s*const\s+casadi_real\s*\*\*" % re.escape(name), open(path).read())) == 1
    except OSError:
        return False


def shared_directory(ctx, d, codegen, algorithms, mods, mr_ref_traj):
    """the way a build system uses the generators: every shipped set generated into ONE destination directory, in
    several orders, then all files must be there with all their functions; and destinations given as relative paths"""
    with quiet():
        eqs = algorithms.eqs()
    sets = {"rdd2.c": ("models", "rdd2"), "rdd2_loglinear.c": ("models", "rdd2_loglinear"), "bezier.c": ("models", "bezier"),
            "casadi_mrp.c": ("algorithms", None), "mrp.c": ("codegen", None)}
    orders = [["rdd2_loglinear.c", "rdd2.c", "bezier.c", "casadi_mrp.c", "mrp.c"], ["mrp.c", "casadi_mrp.c", "bezier.c", "rdd2.c", "rdd2_loglinear.c"],
              ["bezier.c", "rdd2.c", "mrp.c", "rdd2_loglinear.c", "casadi_mrp.c"]]
    env = dict(os.environ)
    env["PYTHONPATH"] = core.REPO + os.pathsep + env.get("PYTHONPATH", "")
    env["MPLBACKEND"] = "Agg"
    for oi, order in enumerate(orders):
        dd = os.path.join(d, "shared%d" % oi)
        os.makedirs(dd, exist_ok=True)
        for f in order:
            kind, name = sets[f]
            if kind == "models":
                if oi == 2:  # through the command line entry point
                    subprocess.run([sys.executable, "-m", "cyecca.models." + name, dd], capture_output=True, text=True, timeout=900, env=env, cwd=dd)
                else:
                    funcs = {k: v for k, v in module_functions(mods[name]).items() if k in PINNED[f]}
                    with quiet():
                        lib_call(ctx, "generate_code", "cyecca.models.%s" % name, lambda: mods[name].generate_code(funcs, filename=f, dest_dir=dd), not_implemented_ok=False)
            elif kind == "algorithms":
                with quiet():
                    lib_call(ctx, "generate_code", "algorithms", lambda: algorithms.generate_code(dict(eqs), dd), not_implemented_ok=False)
            else:
                with quiet():
                    lib_call(ctx, "generate_code", "cyecca.codegen", lambda: codegen.generate_code({"mrp": eqs["mrp"], "sim": eqs["sim"], "mr_ref_traj": mr_ref_traj.derive_mr_ref_traj()}, dd), not_implemented_ok=False)
        have = sorted(os.listdir(dd))
        expect = ["rdd2.c", "rdd2_loglinear.c", "bezier.c", "casadi_mrp.c", "casadi_sim.c", "mrp.c", "sim.c", "mr_ref_traj.c"]
        missing = [f for f in expect if f not in have]
        incomplete = [(f, n) for f in expect if f in have for n in PINNED[f] if not _defined(os.path.join(dd, f), n)]
        ctx.check("all_sets_survive_in_a_shared_directory", "order%d" % oi, not missing and not incomplete,
                  {"generation_order": order, "missing_files": missing, "missing_functions": incomplete[:6], "directory": have})
        shutil.rmtree(dd, ignore_errors=True)
    # relative destination paths (cwd = a scratch directory)
    cwd = os.getcwd()
    base = os.path.join(d, "relcwd")
    os.makedirs(base, exist_ok=True)
    small = {"b3": None}
    try:
        os.chdir(base)
        with quiet():
            from cyecca.models import bezier
            b3 = bezier.derive_bezier3()
            lib_call(ctx, "generate_code", "algorithms", lambda: algorithms.generate_code(dict(eqs), "out_alg"), not_implemented_ok=False)
            lib_call(ctx, "generate_code", "cyecca.codegen", lambda: codegen.generate_code({"mrp": eqs["mrp"], "sim": eqs["sim"]}, "out_gen"), not_implemented_ok=False)
            for mname, mod in mods.items():
                lib_call(ctx, "generate_code", "cyecca.models.%s" % mname, lambda: mod.generate_code(b3, filename="x.c", dest_dir="out_" + mname), not_implemented_ok=False)
    finally:
        os.chdir(cwd)
    want = {"out_alg": ["casadi_mrp.c", "casadi_sim.c"], "out_gen": ["mrp.c", "sim.c"]}
    for mname in mods:
        want["out_" + mname] = ["x.c"]
    for sub_, files in want.items():
        have = sorted(os.listdir(os.path.join(base, sub_))) if os.path.isdir(os.path.join(base, sub_)) else []
        ctx.check("relative_destination_directory", sub_, all(f in have for f in files), {"dest_dir": sub_, "expected": files, "found": have,
                                                                                          "cwd_listing": sorted(os.listdir(base))})
    ctx.check("working_directory_restored", "generators", os.getcwd() == cwd, {"cwd": os.getcwd(), "expected": cwd})
    shutil.rmtree(base, ignore_errors=True)


def finalize(m, tier):
    if m["counters"].get("c_functions_executed", 0) < 30:
        m["inconclusive"].append("fewer than 30 generated C functions were executed (%d)" % m["counters"].get("c_functions_executed", 0))
