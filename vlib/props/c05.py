"""C05 -- Jacobians are the true differentials of exp and of the attitude kinematics."""
from __future__ import annotations

import numpy as np
import scipy.linalg as sl
import casadi as ca

from .. import oracles as O
from ..caseval import Ev
from ..groups import SO3Spec, SE3Spec, SE23Spec, SO3S, angle_mix
from .lie_common import lib_call, algebra_corpus, algebra_switch_points, inplace_history
from .c04 import oracle_ad

PI = np.pi
SHARDS = {"quick": 12, "thorough": 16}
REQUIRED_REACH = ['SO3LieAlgebra.left_jacobian', 'SE3LieAlgebra.left_Q', 'SE3LieAlgebra.right_jacobian_inv', 'SE23LieAlgebra.left_jacobian', 'SO3QuatLieGroup.left_jacobian', 'SO3QuatLieGroup.right_jacobian', 'SO3MrpLieGroup.right_jacobian']
RULE = ("algebra vectors of so(3), se(3), se_2(3): corpus (0, denormal, both sides of every series switch, pi, >pi) + random "
        "(angle 0..2pi-0.05 with tiny/near-limit mix, translations log-uniform 1e-6..10) + bisected switch brackets; reference "
        "Jacobians from scipy.linalg.expm_frechet (exact directional derivative of the matrix exponential: L expm(-X) = (J_l d)^, "
        "expm(-X) L = (J_r d)^), cross-checked against sum ad^k/(k+1)! in mpmath on a sub-sample; group-level quaternion/MRP "
        "Jacobians: random unit quaternions of both signs / MRPs inside and outside the unit ball x random angular velocities, "
        "derivative of the oracle's own q->R (quadratic, so the central difference with step J w is exact) must equal [w]x R or "
        "R [w]x; non-trivial = rotation angle > 1e-6 and (for se3/se23) non-zero translation; distinct = hashed vectors")
ASSUMPTIONS = ["scipy.linalg.expm_frechet accurate to ~1e-13", "angles capped at 2pi-0.05 (Jacobian inverse singular at 2pi)"]
N_QUICK = 4000
N_THOROUGH = 60000


def specs():
    return [SO3S["quat"], SE3Spec(SO3S["quat"]), SE23Spec(SO3S["quat"])]


def ref_jacobians(spec, X):
    """(J_l, J_r) by the Frechet derivative of expm -- no finite differences"""
    N, na = X.shape
    Xh = spec.hat(X)
    B = spec.basis()
    Jl = np.empty((N, na, na))
    Jr = np.empty((N, na, na))
    for i in range(N):
        Em = sl.expm(-Xh[i])
        for j in range(na):
            L = sl.expm_frechet(Xh[i], B[j], compute_expm=False)
            Jl[i, :, j] = spec.vee((L @ Em)[None])[0]
            Jr[i, :, j] = spec.vee((Em @ L)[None])[0]
    return Jl, Jr


def run(ctx):
    N = N_QUICK if ctx.quick else N_THOROUGH
    sp = specs()
    # work units: (spec, chunk) spread over shards; last shard also does group-level Jacobians
    units = []
    per = {"SO3Quat": 1, "SE3Quat": 4, "SE23Quat": 6}
    for s in sp:
        for c in range(per[s.name]):
            units.append((s, c, per[s.name]))
    for i, (s, c, nc) in enumerate(units):
        if i % ctx.nshards == ctx.shard:
            algebra_jacobians(ctx, s, max(50, N // nc), c)
    if ctx.shard == ctx.nshards - 1:
        group_jacobians(ctx, 20000 if ctx.quick else 1000000)
        mp_cross_check(ctx, 6 if ctx.quick else 60)
    if ctx.shard == 0:
        from ..groups import base_specs
        inplace_history(ctx, [s_ for s_ in base_specs() if s_.name in ("SO3Quat", "SO3Mrp", "SO3Dcm", "SE3Quat", "SE3Mrp", "SE23Quat", "SE23Mrp")],
                        4 if ctx.quick else 40, ops=("jacobians", "group_jacobians"))


def algebra_jacobians(ctx, spec, N, chunk):
    name = {"SO3Quat": "so3", "SE3Quat": "se3", "SE23Quat": "se23"}[spec.name]
    rng = ctx.rng("c05:%s:%d" % (name, chunk))
    import cyecca.lie as L
    alg = getattr(L, name)
    na = spec.na
    x = ca.SX.sym("x", na)
    el = alg.elem(x)
    ev = lib_call(ctx, "jacobians", name, lambda: Ev("J", [x], [el.left_jacobian(), el.right_jacobian(),
                                                               el.left_jacobian_inv(), el.right_jacobian_inv()]))
    if ev is None:
        return
    X = spec.alg_rand(rng, N, thi=10.0)
    if chunk == 0:
        X = np.concatenate([np.clip(algebra_corpus(spec), -1e3, 1e3), X, algebra_switch_points(ctx, spec, ev, rng, rays=2)])
    X = X[spec.alg_angle(X) <= 2 * PI - 0.05]
    sc = spec.alg_scale(X)
    ang = spec.alg_angle(X)
    nt = (ang > 1e-6) & ((np.abs(X[:, :-3]).max(axis=1) > 0) if na > 3 else True)
    ctx.distinct(X, nt)
    (Jl, Jr, Jli, Jri), pr = ev(X)
    ctx.cells_from("jacobians:" + name, pr)
    ctx.require("cell:jacobians:" + name)
    rJl, rJr = ref_jacobians(spec, X)
    # conditioning of the inverse near 2pi: |J^-1| ~ 1/(2pi - theta), a first-order pole (the allowance was cond^2 at first;
    # the unchanged tree stays four orders of magnitude below it, and a 1e-8 regulariser of theta^2 hid inside it)
    cond = np.maximum(1.0, 1.0 / np.maximum(2 * PI - ang, 0.05))
    ctx.check_array("left_jacobian_is_dexp", name, np.abs(Jl - rJl).max(axis=(1, 2)), 1e-9 * sc, {"x": X})
    ctx.check_array("right_jacobian_is_dexp", name, np.abs(Jr - rJr).max(axis=(1, 2)), 1e-9 * sc, {"x": X})
    I = np.eye(na)
    ctx.check_array("left_inv_is_inverse", name, np.maximum(np.abs(Jl @ Jli - I).max(axis=(1, 2)), np.abs(Jli @ Jl - I).max(axis=(1, 2))),
                    1e-9 * sc ** 2 * cond, {"x": X})
    ctx.check_array("right_inv_is_inverse", name, np.maximum(np.abs(Jr @ Jri - I).max(axis=(1, 2)), np.abs(Jri @ Jr - I).max(axis=(1, 2))),
                    1e-9 * sc ** 2 * cond, {"x": X})
    # J_l = Ad_exp(x) J_r with the oracle's Ad = expm(ad)
    AdE = O.expm_batch(oracle_ad(spec, X))
    ctx.check_array("Jl_is_Ad_exp_Jr", name, np.abs(Jl - AdE @ Jr).max(axis=(1, 2)), 1e-9 * sc ** 2, {"x": X})
    # J_l(x) = J_r(-x)
    (_, Jrn, _, _), _ = ev(-X)
    ctx.check_array("Jl_is_Jr_of_minus", name, np.abs(Jl - Jrn).max(axis=(1, 2)), 1e-12 * sc, {"x": X})
    # published Q blocks (se3): top-right 3x3 block of the reference Jacobian
    if name == "se3":
        evq = lib_call(ctx, "Q", name, lambda: Ev("Q", [x], [el.left_Q(), el.right_Q()]))
        if evq is not None:
            (Ql, Qr), _ = evq(X)
            ctx.check_array("left_Q_block", name, np.abs(Ql - rJl[:, :3, 3:]).max(axis=(1, 2)), 1e-9 * sc, {"x": X})
            ctx.check_array("right_Q_block", name, np.abs(Qr - rJr[:, :3, 3:]).max(axis=(1, 2)), 1e-9 * sc, {"x": X})
    if chunk == 0:
        # numeric (DM) call path, incl. vectors a hair away from zero
        # ... and fine sweeps: consecutive calls at points that agree to 7 digits (a cache keyed on printed values,
        # a stale block, ... only show in such call histories)
        base = spec.alg_rand(rng, 6, thi=30.0, tlo=1.0)
        sweep = np.concatenate([b[None, :] * (1 + 1e-7 * np.arange(4))[:, None] for b in base])
        # ... and structured vectors: blocks that are exactly zero (no rotation / no translation: numeric arguments can be
        # tested for zero, symbolic ones cannot), single components, and O(1) vectors with one component of 1e-9..1e-6
        # (tolerance-based clean-ups of numeric matrices)
        S = spec.alg_rand(rng, 200, hi=PI - 0.1, thi=3.0, tlo=0.1)[:30]
        S[0:6, -3:] = 0.0
        if na > 3:
            S[6:10, :-3] = 0.0
            S[10:13, :3] = 0.0
        for k_ in range(13, 19):
            keep = int(rng.integers(0, na)); v_ = S[k_, keep]; S[k_] = 0.0; S[k_, keep] = v_
        for k_ in range(19, len(S)):
            S[k_, int(rng.integers(0, na))] = float(rng.choice([-1.0, 1.0]) * O.loguniform(rng, 1e-9, 1e-6, 1)[0])
        Xn = np.concatenate([X[:12], spec.alg_rand(rng, 30, thi=10.0), spec.alg_rand(rng, 20, hi=2e-3, tlo=1e-9, thi=3e-7), sweep, S])
        Xn = Xn[spec.alg_angle(Xn) <= 2 * PI - 0.05]
        rl, rr = ref_jacobians(spec, Xn)
        el_, er_, eli_, eri_ = [], [], [], []
        for k in range(len(Xn)):
            e_ = alg.elem(ca.DM(Xn[k]))
            vl, vr = ca.DM(e_.left_jacobian()).full(), ca.DM(e_.right_jacobian()).full()
            vli, vri = ca.DM(e_.left_jacobian_inv()).full(), ca.DM(e_.right_jacobian_inv()).full()
            el_.append(float(np.abs(vl - rl[k]).max()) if np.isfinite(vl).all() else np.inf)
            er_.append(float(np.abs(vr - rr[k]).max()) if np.isfinite(vr).all() else np.inf)
            eli_.append(float(np.abs(rl[k] @ vli - I).max()) if np.isfinite(vli).all() else np.inf)
            eri_.append(float(np.abs(rr[k] @ vri - I).max()) if np.isfinite(vri).all() else np.inf)
        scn = spec.alg_scale(Xn)
        condn = np.maximum(1.0, 1.0 / np.maximum(2 * PI - spec.alg_angle(Xn), 0.05))
        ctx.check_array("numeric_left_jacobian_is_dexp", name, el_, 1e-9 * scn, {"x": Xn})
        ctx.check_array("numeric_right_jacobian_is_dexp", name, er_, 1e-9 * scn, {"x": Xn})
        ctx.check_array("numeric_left_inv_is_inverse", name, eli_, 1e-9 * scn ** 2 * condn, {"x": Xn})
        ctx.check_array("numeric_right_inv_is_inverse", name, eri_, 1e-9 * scn ** 2 * condn, {"x": Xn})
    ctx.sample({"algebra": name, "x": X[min(len(X) - 1, 5)]})


def mp_cross_check(ctx, n):
    """oracle sanity + second reference: series sum ad^k/(k+1)! in mpmath (50 digits)"""
    mp = O.mp
    mp.mp.dps = 50
    rng = ctx.rng("c05:mp")
    import cyecca.lie as L
    for spec, name in zip(specs(), ("so3", "se3", "se23")):
        alg = getattr(L, name)
        x = ca.SX.sym("x", spec.na)
        ev = Ev("Jmp", [x], [alg.elem(x).left_jacobian(), alg.elem(x).right_jacobian()])
        X = spec.alg_rand(rng, n, thi=3.0, hi=5.0)
        (Jl, Jr), _ = ev(X)
        ad = oracle_ad(spec, X)
        errs_l, errs_r = [], []
        for i in range(len(X)):
            A = mp.matrix(ad[i].tolist())
            errs_l.append(np.abs(O.mp_to_np(O.mp_jac_series(A, +1)) - Jl[i]).max())
            errs_r.append(np.abs(O.mp_to_np(O.mp_jac_series(A, -1)) - Jr[i]).max())
        sc = spec.alg_scale(X)
        ctx.check_array("left_jacobian_vs_mp_series", name, errs_l, 1e-9 * sc, {"x": X})
        ctx.check_array("right_jacobian_vs_mp_series", name, errs_r, 1e-9 * sc, {"x": X})


def group_jacobians(ctx, N):
    rng = ctx.rng("c05:group")
    import cyecca.lie as L
    # ---- quaternion
    q = ca.SX.sym("q", 4)
    ev = lib_call(ctx, "group_jacobian", "SO3Quat", lambda: Ev("qj", [q], [L.SO3Quat.elem(q).left_jacobian(), L.SO3Quat.elem(q).right_jacobian()]))
    if ev is not None:
        Q = SO3S["quat"].rand(rng, N)
        W = O.random_axes(rng, N) * O.loguniform(rng, 1e-3, 50, N)[:, None]
        (Jl, Jr), _ = ev(Q)
        for side, J in (("left", Jl), ("right", Jr)):
            shape_ok = J.shape[1:] == (4, 3)
            ctx.check("quat_jacobian_shape", side, shape_ok, {"shape": list(J.shape[1:])})
            if not shape_ok:
                continue
            qd = np.einsum("nij,nj->ni", J, W)
            # R(q) is a homogeneous quadratic: the central difference with step qd is its exact differential
            dR = (O.quat_to_R(Q + qd) - O.quat_to_R(Q - qd)) / 2
            R = O.quat_to_R(Q)
            Wx = O.hat3(W)
            ref = Wx @ R if side == "left" else R @ Wx
            wn = np.linalg.norm(W, axis=1)
            ctx.check_array("quat_kinematics_" + side, "SO3Quat", np.abs(dR - ref).max(axis=(1, 2)), 1e-9 * np.maximum(1, wn), {"q": Q, "w": W})
            ctx.check_array("quat_norm_preserved_" + side, "SO3Quat", np.abs(np.sum(Q * qd, axis=1)), 1e-9 * np.maximum(1, wn), {"q": Q, "w": W})
        ctx.distinct(np.concatenate([Q, W], axis=1), O.rot_angle(O.quat_to_R(Q)) > 1e-6)
    # ---- MRP (body-frame)
    r = ca.SX.sym("r", 3)
    ev = lib_call(ctx, "group_jacobian", "SO3Mrp", lambda: Ev("rj", [r], [L.SO3Mrp.elem(r).right_jacobian()]))
    if ev is not None:
        Rp = SO3S["mrp"].rand(rng, N)
        W = O.random_axes(rng, N) * O.loguniform(rng, 1e-3, 50, N)[:, None]
        (J,), _ = ev(Rp)
        rd = np.einsum("nij,nj->ni", J, W)
        n2 = np.sum(Rp * Rp, axis=1)
        # oracle's own r -> q map and its analytic differential
        qv = np.concatenate([((1 - n2) / (1 + n2))[:, None], 2 * Rp / (1 + n2)[:, None]], axis=1)
        rdr = np.sum(Rp * rd, axis=1)
        dq0 = -4 * rdr / (1 + n2) ** 2
        dv = 2 * rd / (1 + n2)[:, None] - 4 * Rp * (rdr / (1 + n2) ** 2)[:, None]
        dq = np.concatenate([dq0[:, None], dv], axis=1)
        dR = (O.quat_to_R(qv + dq) - O.quat_to_R(qv - dq)) / 2
        R = O.quat_to_R(qv)
        ref = R @ O.hat3(W)
        wn = np.linalg.norm(W, axis=1)
        ctx.check_array("mrp_kinematics_right", "SO3Mrp", np.abs(dR - ref).max(axis=(1, 2)), 1e-9 * np.maximum(1, wn) * np.maximum(1, n2), {"r": Rp, "w": W})
        ctx.distinct(np.concatenate([Rp, W], axis=1), n2 > 1e-12)
