"""C07 -- SO(3) representation conversions preserve the rotation and yield valid parameters."""
from __future__ import annotations

import numpy as np
import casadi as ca

from .. import oracles as O
from ..caseval import Ev
from ..groups import SO3S, angle_mix
from .lie_common import lib_call, SO3_CORPUS_AXANG

PI = np.pi
SHARDS = {"quick": 16, "thorough": 16}
REQUIRED_REACH = ['SO3DcmLieGroup.from_Mrp', 'SO3DcmLieGroup.from_Quat', 'SO3QuatLieGroup.from_Matrix', 'SO3QuatLieGroup.from_Mrp', 'SO3MrpLieGroup.from_Quat', 'SO3MrpLieGroup.shadow_if_necessary', 'SO3EulerLieGroup.from_Matrix']
RULE = ("rotations from axis-angle (all axes incl. coordinate axes and (1,1,0), (1,1,1); angles 0, denormal..pi incl. exactly pi; "
        "rotations placed on all four matrix->quaternion branches and their ties; Euler triples incl. pitch = +-pi/2 exactly and "
        "+-(pi/2-5e-4) and +-(pi/2 - 1.5e-3)); sources expressed by the oracle in each parameterisation incl. negative-scalar "
        "quaternions (q=(-1,0,0,0) too) and shadow MRPs (norm up to ~200); all 12 ordered pairs + 4 from_Matrix + shadow switch; "
        "compare oracle matrices; non-trivial = angle > 1e-6; distinct = hashed source parameters per pair")
ASSUMPTIONS = ["inside the +-1e-3 rad gimbal band a to-Euler conversion may deviate by up to 2e-3 (documented band tolerance)",
               "numpy oracle; CasADi VM"]
N_QUICK = 20000
N_THOROUGH = 400000
KINDS = ("quat", "mrp", "dcm", "euler")
METH = {"quat": "from_Quat", "mrp": "from_Mrp", "dcm": "from_Dcm", "euler": "from_Euler"}


def rotations(rng, N):
    """(R, axis, angle): broad + boundary rotations"""
    ax = np.array([a for a, _ in SO3_CORPUS_AXANG], dtype=float)
    ax /= np.linalg.norm(ax, axis=1, keepdims=True)
    th = np.array([t for _, t in SO3_CORPUS_AXANG], dtype=float)
    axis = np.concatenate([ax, O.random_axes(rng, N)])
    ang = np.concatenate([th, angle_mix(rng, N, PI)])
    # more exact-pi rotations on random axes (Shepperd non-trace branches and ties)
    k = max(8, N // 50)
    axis = np.concatenate([axis, O.random_axes(rng, k), np.eye(3), -np.eye(3)])
    ang = np.concatenate([ang, np.full(k, PI), np.full(6, PI)])
    # axes a hair off a coordinate axis (1e-8..1e-2 rad) with large angles: the matrix->quaternion branch choice is
    # then between a tiny and a large component (precision of the chosen pivot)
    k2 = max(60, N // 20)
    base = np.eye(3)[rng.integers(0, 3, k2)] * rng.choice([-1.0, 1.0], (k2, 1))
    off = O.random_axes(rng, k2) * O.loguniform(rng, 1e-8, 1e-2, k2)[:, None]
    ax2 = base + off
    ax2 /= np.linalg.norm(ax2, axis=1, keepdims=True)
    axis = np.concatenate([axis, ax2])
    ang = np.concatenate([ang, rng.uniform(2.1, PI, k2)])
    return axis, ang


def euler_specials(rng, n):
    psi = rng.uniform(-PI, PI, n)
    phi = rng.uniform(-PI, PI, n)
    off = rng.choice([0.0, 5e-4, 9.9e-4, 1.01e-3, 1.5e-3, 1e-8, 1e-12], n)
    th = rng.choice([-1.0, 1.0], n) * (PI / 2 - off)
    return np.stack([psi, th, phi], axis=1)


def validity(kind, P):
    """residual of 'valid representative' per sample (0 = valid)"""
    P = P[:, :, 0]
    fin = np.isfinite(P).all(axis=1)
    if kind == "quat":
        v = np.abs(np.linalg.norm(P, axis=1) - 1)
    elif kind == "mrp":
        v = np.maximum(0, np.linalg.norm(P, axis=1) - 1)
    elif kind == "dcm":
        v = O.is_rotation(O.dcm_to_R(P))
    else:
        v = np.maximum(0, np.abs(P[:, 1]) - PI / 2)
    return np.where(fin, v, np.inf)


def run(ctx):
    import cyecca.lie as L
    N = (N_QUICK if ctx.quick else N_THOROUGH)
    rounds = 1 if ctx.quick else 5
    groups = {"quat": L.SO3Quat, "mrp": L.SO3Mrp, "dcm": L.SO3Dcm, "euler": L.SO3EulerB321}
    units = [(s, d) for s in KINDS for d in KINDS if s != d] + [("matrix", d) for d in KINDS] + [("shadow", "mrp")]
    for i, (src, dst) in [(i_, u_) for _r in range(rounds) for i_, u_ in enumerate(units)]:
        if i % ctx.nshards != ctx.shard:
            continue
        rng = ctx.rng("c07:%s:%s:%d" % (src, dst, len(ctx.tallies)))
        axis, ang = rotations(rng, N)
        if src == "shadow":
            shadow_switch(ctx, groups, rng, N)
            continue
        site = "%s_from_%s" % (dst, src)
        if src == "matrix":
            Rm = O.rodrigues(axis * ang[:, None])
            # matrices that are exactly at / around the Euler poles and Shepperd ties
            Rm = np.concatenate([Rm, O.euler321_to_R(euler_specials(rng, max(50, N // 20)))])
            M = ca.SX.sym("M", 3, 3)
            ev = lib_call(ctx, "convert", site, lambda: Ev("c", [M], [groups[dst].from_Matrix(M).param]))
            srcP, Rref, ins = Rm.reshape(len(Rm), 9), Rm, [Rm]
        else:
            s = SO3S[src]
            P = s.from_axang(axis, ang, rng)
            extra = []
            if src == "quat":
                extra = [np.array([[-1.0, 0, 0, 0], [1.0, 0, 0, 0], [0, 1.0, 0, 0], [0, 0, -1.0, 0], [-0.5, 0.5, -0.5, 0.5]]),
                         -O.axang_to_quat(O.random_axes(rng, 200), O.loguniform(rng, 1e-12, 1e-3, 200))]
            elif src == "mrp":
                extra = [O.random_axes(rng, 50), np.zeros((1, 3)), O.random_axes(rng, 50) * (1 + 1e-15)]
            elif src == "euler":
                extra = [euler_specials(rng, max(50, N // 20)), np.array([[0.3, 2.0, -1.0], [3.0, -1.7, 0.2]])]
            elif src == "dcm":
                extra = [O.dcm_param(O.euler321_to_R(euler_specials(rng, max(50, N // 20))))]
            # rotations exactly at / around the Euler poles, expressed in the source parameterisation by the oracle
            Rpole = O.euler321_to_R(euler_specials(rng, max(200, N // 10)))
            if src != "euler":
                extra.append(s.from_R(Rpole, rng))
            P = np.concatenate([P] + extra)
            a = ca.SX.sym("a", s.n)
            ev = lib_call(ctx, "convert", site, lambda: Ev("c", [a], [getattr(groups[dst], METH[src])(groups[src].elem(a)).param]))
            srcP, Rref, ins = P, s.mat(P), [P]
        if ev is None:
            continue
        (Pd,), pr = ev(*ins)
        ctx.cells_from("convert:" + site, pr)
        Md = SO3S[dst].mat(Pd[:, :, 0])
        err = np.abs(Md - Rref).max(axis=(1, 2))
        err = np.where(np.isfinite(Pd[:, :, 0]).all(axis=1), err, np.inf)
        gd = SO3S["euler"].gimbal_dist(Rref)
        if dst == "euler":
            inband = gd < 1.0e-3 + 1e-9
            near = (~inband) & (gd < 1.2e-3)  # band edge: either branch may legitimately be taken
            tol = np.where(inband | near, 2.01e-3, 1e-9 * np.maximum(1, 1 / np.maximum(gd, 1e-3)))
            cells = np.where(inband, "in_gimbal_band", "outside_band")
        else:
            tol = np.full(len(err), 1e-9)
            cells = None
        ctx.check_array("same_rotation", site, err, tol, {"source": srcP}, cells=cells)
        ctx.check_array("valid_result", site, validity(dst, Pd), 1e-9 if dst != "mrp" else 1e-12, {"source": srcP})
        ctx.distinct(srcP, O.rot_angle(Rref) > 1e-6)
        ctx.sample({"pair": site, "source": srcP[min(len(srcP) - 1, 40)]})
        if src != "matrix":
            # numeric (DM) call path on a sub-sample incl. near-identity rotations
            sel = np.concatenate([np.arange(min(40, len(P))), rng.choice(len(P), 60)])
            tiny = s.from_axang(O.random_axes(rng, 20), O.loguniform(rng, 1e-9, 2e-3, 20), rng)
            Pn = np.concatenate([P[sel], tiny])
            errs = []
            for k in range(len(Pn)):
                try:
                    v = ca.DM(getattr(groups[dst], METH[src])(groups[src].elem(ca.DM(Pn[k]))).param).full().ravel()
                    Rk = s.mat(Pn[k][None])[0]
                    e = np.abs(SO3S[dst].mat(v[None])[0] - Rk).max() if np.isfinite(v).all() else np.inf
                    inband = dst == "euler" and SO3S["euler"].gimbal_dist(Rk[None])[0] < 1.2e-3
                    errs.append(0.0 if (inband and e <= 2.01e-3) else e)
                except Exception as ex:
                    errs.append(np.inf)
            ctx.check_array("numeric_same_rotation", site, errs, 1e-9, {"source": Pn})
            # the source handed over in a structurally sparse container (exact zeros not stored): same conversion result
            from .lie_common import structured_params
            bad = None
            for p_ in structured_params(s, rng):
                conv = lambda v: ca.DM(getattr(groups[dst], METH[src])(groups[src].elem(v)).param).full().ravel()
                try:
                    d_ = conv(ca.DM(p_))
                    sx = ca.SX(len(p_), 1)
                    for i_, v_ in enumerate(p_):
                        if v_ != 0:
                            sx[i_] = float(v_)
                    for alt in (conv(ca.sparsify(ca.DM(p_))), conv(sx)):
                        if alt.shape != d_.shape or not np.allclose(alt, d_, rtol=1e-13, atol=1e-300, equal_nan=True):
                            bad = bad or {"source": p_, "dense_container": d_, "sparse_container": alt}
                except Exception as ex:
                    bad = bad or {"source": p_, "exception": "%s: %s" % (type(ex).__name__, str(ex)[:160])}
                ctx.tally("sparse_container_same_value:" + site)
            if bad:
                ctx.violation("sparse_container_same_value", site, bad)
        if dst == "quat" and src in ("matrix", "dcm", "euler"):
            ctx.note("shepperd_cells:" + site, sorted(ctx.cells.get("convert:" + site, [])))


def shadow_switch(ctx, groups, rng, N):
    import cyecca.lie as L
    r = ca.SX.sym("r", 3)

    def build():
        X = L.SO3Mrp.elem(r)
        L.SO3Mrp.shadow_if_necessary(X)
        return Ev("sh", [r], [X.param])

    ev = lib_call(ctx, "shadow", "SO3Mrp", build)
    if ev is None:
        return
    nrm = np.concatenate([O.loguniform(rng, 1e-6, 200, N), [1.0, 1 - 1e-16, 1 + 2.3e-16, 0.0]])
    P = O.random_axes(rng, len(nrm)) * nrm[:, None]
    (Q,), pr = ev(P)
    ctx.cells_from("shadow", pr)
    fin = np.isfinite(Q[:, :, 0]).all(axis=1)
    err = np.where(fin, np.abs(O.mrp_to_R(Q[:, :, 0]) - O.mrp_to_R(P)).max(axis=(1, 2)), np.inf)
    ctx.check_array("shadow_keeps_rotation", "SO3Mrp", err, 1e-9, {"r": P})
    ctx.check_array("shadow_result_in_unit_ball", "SO3Mrp", np.where(fin, np.maximum(0, np.linalg.norm(Q[:, :, 0], axis=1) - 1), np.inf), 1e-12, {"r": P})
    ctx.distinct(P, nrm > 0)


def finalize(m, tier):
    # every one of the 4 matrix->quaternion branches and the 3 Euler branches must have been visited
    c = m["cells"].get("convert:quat_from_matrix", [])
    if len(c) < 4:
        m["inconclusive"].append("matrix->quaternion branches seen: %d < 4" % len(c))
    c = m["cells"].get("convert:euler_from_matrix", [])
    if len(c) < 3:
        m["inconclusive"].append("matrix->Euler branches seen: %d < 3" % len(c))
    if len(m["cells"].get("shadow", [])) < 2:
        m["inconclusive"].append("MRP shadow switch not seen from both sides")
