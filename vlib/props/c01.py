"""C01 -- group axioms under the matrix representation."""
from __future__ import annotations

import numpy as np
import casadi as ca

from .. import oracles as O
from ..caseval import Ev
from ..groups import base_specs, product_specs, ProductSpec, SO3Spec, extra_euler_specs, SO3S, RnSpec, SE2Spec, SE3Spec
from .lie_common import (inplace_history, sparse_param_form, lib_call, mrp_product_ok, euler_ok, group_corpus, run_contract_slice,
                         configs_for_shard)

SHARDS = {"quick": 14, "thorough": 16}
REQUIRED_REACH = ['SO3QuatLieGroup.product', 'SO3MrpLieGroup.product', 'SO3LieGroup.product', 'SE3LieGroup.product', 'SE23LieGroup.product', 'SE2LieGroup.product', 'LieGroupDirectProduct.product', 'SO3QuatLieGroup.from_Matrix', 'SO3EulerLieGroup.from_Matrix', 'SE3LieGroup.inverse', 'SO3DcmLieGroup.identity']
RULE = ("per group configuration: random elements from axis-angle by the oracle's formulas (angles 0..pi "
        "incl. denormal/near-pi/exact 0, both quaternion signs, shadow MRPs, Euler outside the gimbal band, "
        "translations log-uniform 1e-6..1e3) + boundary corpus; a case is non-trivial when none of its "
        "operands is the identity (rotation angle > 1e-6 or a non-zero translation); distinct = distinct "
        "hashed operand tuples")
ASSUMPTIONS = ["numpy/scipy oracles are correct", "CasADi SX virtual machine evaluates the library's expression graphs faithfully",
               "MRP products whose composite is within cos^2(theta/4) < 0.05 of the 360-degree singularity and Euler "
               "results within 2.5e-3 rad of gimbal lock are excluded (counted as skipped_domain)"]

N_QUICK = 20000
N_THOROUGH = 600000


def nontrivial(spec, P):
    I = np.eye(spec.md)
    return np.abs(spec.mat(P) - I).max(axis=(1, 2)) > 1e-6


def run(ctx):
    N = N_QUICK if ctx.quick else N_THOROUGH
    cfg_rng = np.random.default_rng([ctx.seed, 101])
    specs = base_specs() + extra_euler_specs() + product_specs(cfg_rng, ctx.tier)
    mine = configs_for_shard(specs, ctx)
    ctx.note("configs_total", [s.name for s in specs])
    for spec in mine:
        try:
            check_config(ctx, spec, N if not isinstance(spec, ProductSpec) or ctx.quick else max(2000, N // 20))
        except NotImplementedError:
            raise
    if ctx.shard == 0:
        run_contract_slice(ctx, base_specs() + product_specs(cfg_rng, "quick")[:3], 60 if ctx.quick else 600,
                           ops=("product", "inverse", "identity"))
    if ctx.shard == 1 % ctx.nshards:
        repo_tests_under_contracts(ctx)
    if ctx.shard == 2 % ctx.nshards:
        construction_history(ctx)
    if ctx.shard == 3 % ctx.nshards:
        inplace_history(ctx, base_specs() + product_specs(cfg_rng, "quick")[:3], 4 if ctx.quick else 40, ops=("to_Matrix", "product", "inverse", "identity"))
        sparse_param_form(ctx, base_specs() + product_specs(cfg_rng, "quick")[:3], ops=("to_Matrix", "product", "inverse", "identity"))
    ctx.require("product:SO3Quat") if any(s.name == "SO3Quat" for s in mine) else None


def check_config(ctx, spec, N):
    name = spec.name
    rng = ctx.rng("c01:" + name)
    G = lib_call(ctx, "lib", name, spec.lib)
    if G is None:
        return
    n = spec.n
    a, b, c = ca.SX.sym("a", n), ca.SX.sym("b", n), ca.SX.sym("c", n)

    # inputs: corpus + random
    corp = group_corpus(spec)
    A = np.concatenate([corp, spec.rand(rng, N)])
    B = np.concatenate([corp[::-1], spec.rand(rng, N)])
    C = np.concatenate([np.roll(corp, 1, axis=0), spec.rand(rng, N)])
    MA, MB, MC = spec.mat(A), spec.mat(B), spec.mat(C)
    sA, sB, sC = spec.scale(A), spec.scale(B), spec.scale(C)
    ctx.distinct(np.concatenate([A, B], axis=1), nontrivial(spec, A) & nontrivial(spec, B))

    # ---- to_Matrix against the oracle's independent parameter -> matrix map
    ev = lib_call(ctx, "to_matrix", name, lambda: Ev("tm", [a], [G.elem(a).to_Matrix()]))
    if ev is not None:
        (M,), _ = ev(A)
        err = np.abs(M - MA).max(axis=(1, 2))
        ctx.check_array("to_matrix", name, err, 1e-9 * sA, {"X": A})

    # ---- product
    ok = mrp_product_ok(spec, A, B) & euler_ok(spec, MA @ MB)
    ctx.skip("product_domain:" + name, int((~ok).sum()))
    ev = lib_call(ctx, "product", name, lambda: Ev("prod", [a, b], [(G.elem(a) * G.elem(b)).param]))
    if ev is not None:
        (P,), pr = ev(A[ok], B[ok])
        ctx.cells_from("product:" + name, pr)
        err = np.abs(spec.mat(P[:, :, 0]) - MA[ok] @ MB[ok]).max(axis=(1, 2))
        ctx.check_array("product", name, err, 1e-9 * (sA[ok] + sB[ok]), {"X": A[ok], "Y": B[ok]})

    # ---- inverse (both sides)
    okI = euler_ok(spec, np.linalg.inv(MA) if spec.md < 6 else np.linalg.inv(MA))
    ev = lib_call(ctx, "inverse", name, lambda: Ev("inv", [a], [G.elem(a).inverse().param]))
    if ev is not None:
        (P,), pr = ev(A[okI])
        Mi = spec.mat(P[:, :, 0])
        I = np.eye(spec.md)
        err = np.maximum(np.abs(Mi @ MA[okI] - I).max(axis=(1, 2)), np.abs(MA[okI] @ Mi - I).max(axis=(1, 2)))
        ctx.check_array("inverse", name, err, 1e-9 * sA[okI] ** 2, {"X": A[okI]})

    # ---- identity: maps to I and is neutral on both sides
    ident = lib_call(ctx, "identity", name, lambda: np.array(ca.DM(G.identity().param).full()).ravel())
    if ident is not None:
        Mi = spec.mat(ident[None, :])[0]
        e = float(np.abs(Mi - np.eye(spec.md)).max())
        ctx.check_array("identity", name, [e], 1e-12, {"identity_param": ident[None, :]})
        okE = euler_ok(spec, MA)
        ev = lib_call(ctx, "identity_neutral", name, lambda: Ev(
            "idn", [a], [(G.identity() * G.elem(a)).param, (G.elem(a) * G.identity()).param]))
        if ev is not None and e <= 1e-12:
            (L, R), _ = ev(A[okE])
            err = np.maximum(np.abs(spec.mat(L[:, :, 0]) - MA[okE]).max(axis=(1, 2)),
                             np.abs(spec.mat(R[:, :, 0]) - MA[okE]).max(axis=(1, 2)))
            ctx.check_array("identity_neutral", name, err, 1e-9 * sA[okE], {"X": A[okE]})

    # ---- associativity
    MAB, MBC = MA @ MB, MB @ MC
    ok3 = (mrp_product_ok(spec, A, B) & mrp_product_ok(spec, B, C) & euler_ok(spec, MAB) & euler_ok(spec, MBC)
           & euler_ok(spec, MAB @ MC))
    if ok3.any():
        # composite MRP singularities of (ab)c and a(bc): filter on oracle parameters of the partial products
        ok3 &= mrp_composite_ok(spec, MAB, C, left_is_matrix=True) & mrp_composite_ok(spec, MBC, A, left_is_matrix=False)
    ev = lib_call(ctx, "assoc", name, lambda: Ev("assoc", [a, b, c], [
        ((G.elem(a) * G.elem(b)) * G.elem(c)).param, (G.elem(a) * (G.elem(b) * G.elem(c))).param]))
    if ev is not None and ok3.any():
        (L, R), _ = ev(A[ok3], B[ok3], C[ok3])
        ML, MR = spec.mat(L[:, :, 0]), spec.mat(R[:, :, 0])
        ref = MA[ok3] @ MB[ok3] @ MC[ok3]
        err = np.maximum(np.abs(ML - MR).max(axis=(1, 2)), np.abs(ML - ref).max(axis=(1, 2)))
        ctx.check_array("assoc", name, err, 3e-9 * (sA[ok3] + sB[ok3] + sC[ok3]), {"X": A[ok3], "Y": B[ok3], "Z": C[ok3]})

    # ---- from_Matrix is a right inverse of to_Matrix (where offered)
    Msym = ca.SX.sym("M", spec.md, spec.md)
    ev = lib_call(ctx, "from_matrix", name, lambda: Ev("fm", [Msym], [G.from_Matrix(Msym).param]),
                  not_implemented_ok=True)
    if ev is not None:
        okF = euler_ok(spec, MA)
        (P,), pr = ev(MA[okF])
        ctx.cells_from("from_matrix:" + name, pr)
        err = np.abs(spec.mat(P[:, :, 0]) - MA[okF]).max(axis=(1, 2))
        ctx.check_array("from_matrix", name, err, 1e-9 * sA[okF], {"X": A[okF]})
    ctx.sample({"config": name, "X": A[len(corp)], "Y": B[len(corp)]})


def mrp_composite_ok(spec, Mleft, Pother, left_is_matrix):
    """for associativity: the second-level MRP product must also stay away from 360 degrees.
    The rotation of the partial product comes from the oracle matrix."""
    parts = spec.parts if isinstance(spec, ProductSpec) else [spec]
    ok = np.ones(len(Pother), dtype=bool)
    i = j = 0
    for p in parts:
        so3 = p if isinstance(p, SO3Spec) else getattr(p, "so3", None)
        if so3 is not None and so3.kind == "mrp":
            off_m = {"SO3": 0, "SE3": 0, "SE2": 0}.get(p.name[:3], 0)
            R1 = Mleft[:, i:i + 3, i:i + 3]
            r2 = Pother[:, j + p.n - 3:j + p.n]
            R2 = O.mrp_to_R(r2)
            R = R1 @ R2 if left_is_matrix else R2 @ R1
            # cos^2(theta/4) of composite = (1+q0)/2 with q0 = cos(theta/2)
            th = O.rot_angle(R)  # in [0, pi]: composite within principal range always fine
            # singular only if the *formula's* composite hits 360 deg, i.e. operands' MRP sets matter:
            q1 = O.R_to_quat(R1)
            q1 = np.where(q1[:, :1] < 0, -q1, q1)
            # the library's partial product returns some MRP for R1 (either set); be conservative: require
            # both sign choices to be away from the singularity
            n2 = np.sum(r2 * r2, axis=1)
            q2 = np.concatenate([((1 - n2) / (1 + n2))[:, None], 2 * r2 / (1 + n2)[:, None]], axis=1)
            for s in (+1, -1):
                qq = O.quat_mul(s * q1, q2) if left_is_matrix else O.quat_mul(q2, s * q1)
                ok &= (1 + qq[:, 0]) / 2 > 0.05
        i += p.md
        j += p.n
    return ok


def repo_tests_under_contracts(ctx):
    """the repository's own Lie-group tests, executed with the post-conditions attached to the real methods: the
    contracts then see every numeric product/inverse/identity/exp/log the tests make, including nested ones"""
    import json
    import os
    import subprocess
    import sys
    from .. import core
    out = os.path.join(ctx.workdir, "contracts-%d.json" % ctx.shard)
    env = dict(os.environ)
    env["PYTHONPATH"] = os.pathsep.join([core.REPO, core.VERIF, core.DEPS])
    env["VERIF_CONTRACT_OUT"] = out
    env["MPLBACKEND"] = "Agg"
    r = subprocess.run([sys.executable, "-m", "pytest", "-q", "-p", "no:cacheprovider", "-p", "vlib.pytest_contracts", "--timeout=900",
                        os.path.join(core.REPO, "tests", "lie")], capture_output=True, text=True, timeout=1500, env=env, cwd=ctx.workdir)
    if not os.path.exists(out):
        ctx.inconclusive.append("repo tests under contracts produced no report: " + (r.stdout + r.stderr)[-300:])
        return
    rep = json.load(open(out))
    tot = 0
    for op, st in rep["stats"].items():
        ctx.count("repo_tests_contract_evaluated:" + op, st["evaluated"])
        ctx.count("repo_tests_contract_skipped_symbolic:" + op, st["skipped_symbolic"])
        ctx.tally("contract_under_repo_tests:" + op, st["evaluated"])
        tot += st["evaluated"]
    for name, cls, det in rep["violations"]:
        ctx.violation("contract_under_repo_tests_" + name, cls, det)
    ctx.note("repo_tests_under_contracts", {"pytest_exit": rep["exitstatus"], "tail": r.stdout.strip().splitlines()[-1:] if r.stdout else []})
    if tot == 0:
        ctx.inconclusive.append("contracts never evaluated while running the repository's tests")


def construction_history(ctx):
    """histories of group construction: building a larger direct product from an existing one (G = A*B, then H = G*C,
    K = G*D) must leave G a correct A x B and make H, K correct too -- groups are values, not shared mutable state"""
    rng = ctx.rng("c01:history")
    Sa, Sb, Sc, Sd = SO3S["quat"], RnSpec(3), SE2Spec(), SE3Spec(SO3S["mrp"])
    orders = [((Sa, Sb), Sc, Sd), ((Sc, Sa), Sb, Sa), ((Sd, Sa), Sc, Sb)]
    for (p, q), r, s in orders:
        label = "%s*%s then *%s, *%s" % (p.name, q.name, r.name, s.name)
        try:
            G = p.lib() * q.lib()
            spG = ProductSpec([p, q])
            spG._lib = G
            before = _product_snapshot(spG, G, rng)
            H = G * r.lib()
            K = G * s.lib()
            after = _product_snapshot(spG, G, rng)
            okG = before is not None and after is not None and before[0] <= 1e-9 and after[0] <= 1e-9 and G.n_param == p.n + q.n and len(G.groups) == 2
            ctx.check("group_unchanged_by_later_products", "direct_product", okG, {"history": label, "error_before": None if before is None else before[0],
                                                                                   "error_after": None if after is None else after[0], "n_param": G.n_param, "factors": len(G.groups)})
            for grp, parts in ((H, [p, q, r]), (K, [p, q, s])):
                sp = ProductSpec(parts)
                sp._lib = grp
                snap = _product_snapshot(sp, grp, rng)
                ctx.check("later_product_correct", "direct_product", snap is not None and snap[0] <= 1e-9 and grp.n_param == sp.n and len(grp.groups) == 3,
                          {"history": label, "group": sp.name, "error": None if snap is None else snap[0], "n_param": grp.n_param, "expected_n_param": sp.n})
        except Exception as e:
            ctx.tally("group_unchanged_by_later_products:direct_product")
            ctx.violation("group_unchanged_by_later_products", "direct_product", {"history": label, "exception": type(e).__name__, "message": str(e)[:300]})


def _product_snapshot(spec, G, rng, n=40):
    """max error of product / inverse / identity / to_Matrix of G on n random elements against the oracle"""
    try:
        A, B = spec.rand(rng, n, thi=10.0), spec.rand(rng, n, thi=10.0)
        ok = mrp_product_ok(spec, A, B)
        err = 0.0
        for k in range(n):
            if not ok[k]:
                continue
            a, b = G.elem(ca.DM(A[k])), G.elem(ca.DM(B[k]))
            MA, MB = spec.mat(A[k][None])[0], spec.mat(B[k][None])[0]
            Pm = spec.mat(np.array(ca.DM((a * b).param).full()).ravel()[None])[0]
            Im = spec.mat(np.array(ca.DM(a.inverse().param).full()).ravel()[None])[0]
            Tm = np.array(ca.DM(a.to_Matrix()).full())
            sc = max(1.0, np.abs(MA).max(), np.abs(MB).max())
            err = max(err, np.abs(Pm - MA @ MB).max() / sc, np.abs(Im @ MA - np.eye(spec.md)).max() / sc**2, np.abs(Tm - MA).max() / sc)
        Em = spec.mat(np.array(ca.DM(G.identity().param).full()).ravel()[None])[0]
        err = max(err, np.abs(Em - np.eye(spec.md)).max())
        return (float(err),)
    except NotImplementedError:
        return None
