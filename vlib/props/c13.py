"""C13 -- control allocation yields reachable motor commands and honours feasible demands."""
from __future__ import annotations

import numpy as np
import casadi as ca

from .. import oracles as O
from ..caseval import Ev
from .lie_common import lib_call

SHARDS = {"quick": 8, "thorough": 16}
REQUIRED_REACH = ['derive_control_allocation', 'saturate']
RULE = ("random demands (thrust from far below 0 to far above 4 F_max, moments from 0 to far beyond saturation, log-uniform positive "
        "F_max, l, Cm, Ct) + boundary-directed demands built from target motor-force vectors on a power-of-two geometry so that the "
        "headroom quantities C1 = F_max - max(F) and C2 = min(F) are hit at exactly 0 and on both sides in every combination; oracle = "
        "exact case analysis in numpy with the documented mixer layout; cells = T-range x M-range x sign(C1) x sign(C2) x moment size; "
        "non-trivial = non-zero moment demand; distinct = hashed input tuples")
ASSUMPTIONS = ["'demanded' = the range-limited thrust/moment the function itself reports (T in [0,4F_max], |M_i| <= 2 l F_max), as the statement says",
               "motor layout as documented in the allocator (rows (+,-,-,-),(+,+,+,-),(+,+,-,+),(+,-,+,+))"]


def mixer(l, Cm):
    N = len(l)
    A = np.empty((N, 4, 4))
    sg = np.array([[-1, -1, -1], [1, 1, -1], [1, -1, 1], [-1, 1, 1]], dtype=float)
    A[:, :, 0] = 0.25
    A[:, :, 1] = sg[:, 0] / (4 * l)[:, None]
    A[:, :, 2] = sg[:, 1] / (4 * l)[:, None]
    A[:, :, 3] = sg[:, 2] / (4 * Cm)[:, None]
    # exact inverse (columns of A are orthogonal)
    B = np.empty((N, 4, 4))
    B[:, 0, :] = 1.0
    B[:, 1, :] = sg[:, 0] * l[:, None]
    B[:, 2, :] = sg[:, 1] * l[:, None]
    B[:, 3, :] = sg[:, 2] * Cm[:, None]
    return A, B


def gen_random(rng, N):
    Fmax = O.loguniform(rng, 0.1, 100, N)
    # "all positive constants": a few percent of very small and very large force limits (micro-thrusters .. launchers)
    ex = rng.random(N)
    Fmax = np.where(ex < 0.04, O.loguniform(rng, 1e-7, 1e-2, N), np.where(ex > 0.97, O.loguniform(rng, 1e2, 1e6, N), Fmax))
    l = O.loguniform(rng, 0.05, 2, N)
    Cm = O.loguniform(rng, 1e-3, 1, N)
    Ct = O.loguniform(rng, 1e-7, 1e-3, N)
    u = rng.random(N)
    T = rng.uniform(0, 4, N) * Fmax
    T = np.where(u < 0.15, -O.loguniform(rng, 1e-3, 100, N) * Fmax, T)
    T = np.where(u > 0.85, (4 + O.loguniform(rng, 1e-3, 100, N)) * Fmax, T)
    # "any demand": a few percent of the thrust demands are astronomically out of range (1e2 .. 1e18 times F_max, both signs);
    # the range limit is exact for them as well
    far = rng.random(N) < 0.06
    T = np.where(far, rng.choice([-1.0, 1.0], N) * O.loguniform(rng, 1e2, 1e18, N) * Fmax, T)
    mag = O.loguniform(rng, 1e-7, 10, (N, 3)) * (2 * l * Fmax)[:, None]
    farm = rng.random(N) < 0.03
    mag = np.where(farm[:, None], O.loguniform(rng, 10, 1e15, (N, 3)) * (2 * l * Fmax)[:, None], mag)
    M = mag * rng.choice([-1.0, 1.0], (N, 3))
    M[rng.random(N) < 0.05] = 0.0
    M[:, 2] *= (Cm / l) * rng.choice([0.0, 1.0, 1.0], N)  # yaw moments live on the Cm scale
    return Fmax, l, Cm, Ct, T, M


def gen_directed(rng, N):
    """targets F (small integers, incl. outside [0, F_max]) on power-of-two geometry -> exact (T, M)"""
    Fmax = rng.choice([4.0, 8.0, 2.0], N)
    l = rng.choice([1.0, 0.5, 2.0, 0.25], N)
    Cm = rng.choice([1.0, 0.5, 2.0, 0.125], N)
    Ct = rng.choice([2.0 ** -10, 2.0 ** -20], N)
    F = rng.integers(-3, 12, (N, 4)).astype(float)
    k = N // 2
    # half of them exactly on the double boundary max = F_max, min = 0 (or single boundaries)
    F[:k] = rng.integers(0, 5, (k, 4)) * (Fmax[:k, None] / 4)
    idx = rng.integers(0, 4, k)
    F[np.arange(k), idx] = Fmax[:k]
    j = (idx + rng.integers(1, 4, k)) % 4
    zero = rng.random(k) < 0.6
    F[np.arange(k)[zero], j[zero]] = 0.0
    _, B = mixer(l, Cm)
    TM = np.einsum("nij,nj->ni", B, F)
    return Fmax, l, Cm, Ct, TM[:, 0], TM[:, 1:]


def run(ctx):
    if ctx.shard == ctx.nshards - 1:
        # the by-name calling convention of the shipped functions this property is about (see vlib/named.py)
        from .. import named
        named.monitor(ctx, ['rdd2:control_allocation'], ctx.rng("named"))
        ctx.require("call_by_argument_name", "(by-name calls never evaluated)")
        named.derivation_history(ctx, ['rdd2'], ctx.rng("named2"))
    from cyecca.models import rdd2
    rng = ctx.rng("c13")
    f = lib_call(ctx, "derive", "control_allocation", lambda: rdd2.derive_control_allocation()["f_alloc"], not_implemented_ok=False)
    if f is None:
        return
    s = [ca.SX.sym(n, k) for n, k in (("F_max", 1), ("l", 1), ("Cm", 1), ("Ct", 1), ("T", 1), ("M", 3))]
    ev = Ev("alloc", s, list(f(*s)))
    N = 30000 if ctx.quick else 500000
    for tag, gen in (("random", gen_random), ("directed", gen_directed)) * (1 if ctx.quick else 5):
        Fmax, l, Cm, Ct, T, M = gen(rng, N)
        (om, Fp, Fm, Ft, Ms), pr = ev(Fmax, l, Cm, Ct, T, M)
        ctx.cells_from("predicates", pr)
        om, Fp, Fm, Ft, Ms = om[:, :, 0], Fp[:, :, 0], Fm[:, :, 0], Ft[:, :, 0], Ms[:, :, 0]
        inp = {"F_max": Fmax, "l": l, "Cm": Cm, "Ct": Ct, "T": T, "M": M}
        A, B = mixer(l, Cm)
        # oracle: range-limited demand
        Tsat = np.clip(T, 0, 4 * Fmax)
        Mmax = 2 * l * Fmax
        Msat = np.clip(M, -Mmax[:, None], Mmax[:, None])
        Fm_o = np.einsum("nij,nj->ni", A[:, :, 1:], Msat)
        Ft_o = Tsat[:, None] / 4 * np.ones(4)
        Fs = Fm_o + Ft_o
        C1 = Fmax - Fs.max(axis=1)
        C2 = Fs.min(axis=1)
        big = np.abs(Fm_o).max(axis=1) > 1e-5
        sg = lambda x: np.where(x > 0, "+", np.where(x < 0, "-", "0"))
        cells = np.char.add(np.char.add(np.char.add(np.where(T < 0, "T<0", np.where(T > 4 * Fmax, "T>max", "T_in")), np.where((np.abs(M) > Mmax[:, None]).any(axis=1), "|M>max", "|M_in")),
                                        np.char.add(np.char.add("|C1", sg(C1)), np.char.add("|C2", sg(C2)))), np.where(big, "|mom", "|nomom"))
        for c in np.unique(cells):
            ctx.cell("allocator_cells", c)
        tolF = 1e-9 * Fmax
        fin = np.isfinite(Fp).all(axis=1) & np.isfinite(om).all(axis=1)
        # reported demand equals the oracle's range-limited demand
        ctx.check_array("reported_demand", tag, np.where(fin, np.maximum(np.abs(Ms - Msat).max(axis=1) / Mmax, np.abs(Ft - Ft_o).max(axis=1) / Fmax), np.inf), 1e-12, inp, cells=cells)
        # reported per-motor moment forces are the mixer applied to the *range-limited* moment
        ctx.check_array("reported_moment_forces", tag, np.where(fin, np.abs(Fm - Fm_o).max(axis=1) / np.maximum(Fmax, np.abs(Fm_o).max(axis=1)), np.inf), 1e-12, inp, cells=cells)
        # (a) bounds, always
        viol = np.maximum(np.maximum(0, -Fp).max(axis=1), np.maximum(0, Fp - Fmax[:, None]).max(axis=1))
        ctx.check_array("force_bounds", tag, np.where(fin, viol / Fmax, np.inf), 0.0, inp, cells=cells)
        om_ref = np.sqrt(np.maximum(Fp, 0) / Ct[:, None])
        ctx.check_array("motor_speed", tag, np.where(fin & (om >= 0).all(axis=1), np.abs(om - om_ref).max(axis=1) / np.maximum(1, om_ref.max(axis=1)), np.inf), 1e-12, inp, cells=cells)
        # (b) jointly achievable -> reproduced exactly
        joint = (Fs >= 0).all(axis=1) & (Fs <= Fmax[:, None]).all(axis=1)
        e = np.abs(Fp - Fs).max(axis=1)
        ctx.check_array("joint_feasible_exact", tag, np.where(fin, e, np.inf)[joint], tolF[joint], {k: v[joint] for k, v in inp.items()}, cells=cells[joint])
        TMr = np.einsum("nij,nj->ni", B, Fp)
        ctx.check_array("joint_feasible_reproduces_demand", tag, np.where(fin, np.maximum(np.abs(TMr[:, 0] - Tsat) / (4 * Fmax), (np.abs(TMr[:, 1:] - Msat) / np.stack([Mmax, Mmax, 2 * Cm * Fmax], axis=1)).max(axis=1)), np.inf)[joint],
                        1e-9, {k: v[joint] for k, v in inp.items()}, cells=cells[joint])
        # (c) moment alone achievable -> moment preserved, least collective shift
        spread = Fm_o.max(axis=1) - Fm_o.min(axis=1)
        mom_ok = spread <= Fmax
        over = np.maximum(0, Fs.max(axis=1) - Fmax)
        under = np.maximum(0, -Fs.min(axis=1))
        shift = -over + under
        Fexp = Fs + shift[:, None]
        # round-off at an exact fit (spread == F_max) can push a force 1 ulp outside: final clamp is legitimate
        Fexp = np.clip(Fexp, 0, Fmax[:, None])
        e = np.abs(Fp - Fexp).max(axis=1)
        ctx.check_array("moment_preserved_least_shift", tag, np.where(fin, e, np.inf)[mom_ok], tolF[mom_ok], {k: v[mom_ok] for k, v in inp.items()}, cells=cells[mom_ok])
        em = (np.abs(TMr[:, 1:] - Msat) / np.stack([Mmax, Mmax, 2 * Cm * Fmax], axis=1)).max(axis=1)
        ctx.check_array("moment_preserved", tag, np.where(fin, em, np.inf)[mom_ok], 1e-9, {k: v[mom_ok] for k, v in inp.items()}, cells=cells[mom_ok])
        ctx.distinct(np.concatenate([Fmax[:, None], l[:, None], Cm[:, None], Ct[:, None], T[:, None], M], axis=1), np.abs(M).max(axis=1) > 0)
        ctx.sample({"gen": tag, **{k: v[7] for k, v in inp.items()}, "F_out": Fp[7], "cell": str(cells[7])})


def finalize(m, tier):
    cells = m["cells"].get("allocator_cells", [])
    need = ["C10|C20", "C10|C2+", "C1+|C20", "C1-|C2-", "C1-|C2+", "C1+|C2-", "C1+|C2+"]
    for n in need:
        if not any(n in c for c in cells):
            m["inconclusive"].append("allocator cell never visited: " + n)
