"""C18 -- Bezier trajectories meet their boundary conditions; derivatives are exact."""
from __future__ import annotations

from fractions import Fraction as Fr
from math import comb

import numpy as np
import casadi as ca

from .. import oracles as O
from ..caseval import Ev
from .lie_common import lib_call

SHARDS = {"quick": 8, "thorough": 16}
REQUIRED_REACH = ['Bezier.eval', 'Bezier.deriv', 'derive_bezier7', 'derive_bezier3', 'derive_multirotor']
RULE = ("curve degree n = 1..10 (all derivative orders) and 14, 18, 24 (orders 0..2), dimension 1..4, control points log-uniform with mixed signs, durations T in [0.05, 50], times inside "
        "[0,T], at 0 and T exactly, and outside (-T..2T); derivative orders 0..n; reference = Bernstein polynomial expanded and "
        "differentiated exactly in fractions.Fraction on the very doubles handed to the library; solvers: random boundary vectors "
        "(position..jerk at both ends), T in [0.2, 20], checked through the shipped *_traj functions at t = 0 and t = T; derivative "
        "consistency of *_traj / bezier_multirotor rows by casadi AD in t; non-trivial = non-constant curve; distinct = hashed (P, T, t)")
ASSUMPTIONS = ["fractions.Fraction arithmetic is exact", "casadi AD in t is the exact time derivative of the shipped expressions"]


def bernstein_monomial(n):
    """coefficients c[i][k] with b_{i,n}(x) = sum_k c[i][k] x^k"""
    C = [[Fr(0)] * (n + 1) for _ in range(n + 1)]
    for i in range(n + 1):
        for k in range(n - i + 1):
            C[i][i + k] += comb(n, i) * comb(n - i, k) * (-1) ** k
    return C


def exact_curve_derivative(P, T, t, m):
    """m-th time derivative at t of the Bezier curve with control points P (list of floats), exact"""
    n = len(P) - 1
    C = bernstein_monomial(n)
    coef = [Fr(0)] * (n + 1)
    for i in range(n + 1):
        pi = Fr(float(P[i]))
        for k in range(n + 1):
            coef[k] += pi * C[i][k]
    for _ in range(m):
        coef = [coef[k] * k for k in range(1, len(coef))] or [Fr(0)]
    x = Fr(float(t)) / Fr(float(T))
    val = Fr(0)
    for k in range(len(coef) - 1, -1, -1):
        val = val * x + coef[k]
    return val / Fr(float(T)) ** m


def run(ctx):
    if ctx.shard == ctx.nshards - 1:
        # the by-name calling convention of the shipped functions this property is about (see vlib/named.py)
        from .. import named
        named.monitor(ctx, ['bezier:bezier3_solve', 'bezier:bezier3_traj', 'bezier:bezier7_solve', 'bezier:bezier7_traj', 'bezier:bezier_multirotor'], ctx.rng("named"))
        ctx.require("call_by_argument_name", "(by-name calls never evaluated)")
        named.derivation_history(ctx, ['bezier'], ctx.rng("named2"))
    from cyecca.models import bezier as bz
    rng = ctx.rng("c18")
    if ctx.shard % 2 == 0:
        eval_and_deriv(ctx, bz, rng, 40 if ctx.quick else 2000)
    else:
        solvers(ctx, bz, rng, 4000 if ctx.quick else 300000)
        traj_consistency(ctx, bz, rng, 3000 if ctx.quick else 60000)


def eval_and_deriv(ctx, bz, rng, reps):
    degs = list(range(1, 11)) + [14, 18, 24]  # high degrees: value and the first two derivatives, one dimension
    for n in degs:
        if (n + ctx.shard // 2) % max(1, ctx.nshards // 2) != 0 and ctx.nshards > 2 and False:
            continue
        max_m = n if n <= 10 else 2
        for d in ((1, 2, 3, 4) if n <= 10 else (1,)):
            if (n * 4 + d) % max(1, ctx.nshards // 2) != (ctx.shard // 2):
                continue
            P = ca.SX.sym("P", d, n + 1)
            T, t = ca.SX.sym("T"), ca.SX.sym("t")
            B = bz.Bezier(P, T)
            outs = lib_call(ctx, "bezier", "n=%d,d=%d" % (n, d), lambda: [B.eval(t)] + [B.deriv(m).eval(t) for m in range(1, max_m + 1)], not_implemented_ok=False)
            if outs is None:
                continue
            ev = Ev("bz", [P, T, t], outs, probe=False)
            R = reps
            Pn = O.signed_loguniform(rng, 1e-3, 1e2, (R, d, n + 1))
            Tn = O.loguniform(rng, 0.05, 50, R)
            u = rng.random(R)
            beta = rng.uniform(0, 1, R)
            beta = np.where(u < 0.1, 0.0, np.where(u < 0.2, 1.0, np.where(u < 0.4, rng.uniform(-1, 2, R), beta)))
            # times a hair inside / outside either end of the segment (1e-12 .. 1e-4 of T): still the polynomial, not the end value
            hair = O.loguniform(rng, 1e-12, 1e-4, R) * rng.choice([-1.0, 1.0], R)
            beta = np.where((u >= 0.4) & (u < 0.47), 1.0 + hair, np.where((u >= 0.47) & (u < 0.5), hair, beta))
            tn = beta * Tn
            tn = np.where(u < 0.2, np.where(u < 0.1, 0.0, Tn), tn)
            vals, _ = ev(Pn, Tn, tn)
            shapes_ok = all(v.shape[1:] == (d, 1) for v in vals)
            ctx.check("curve_value_has_curve_dimension", "n=%d,d=%d" % (n, d), shapes_ok, {"shapes": [list(v.shape[1:]) for v in vals], "expected": [d, 1]})
            if not shapes_ok:
                continue
            for m in range(0, max_m + 1):
                err = np.empty(R)
                for r in range(R):
                    e = 0.0
                    for k in range(d):
                        ref = exact_curve_derivative(Pn[r, k], Tn[r], tn[r], m)
                        x = float(tn[r] / Tn[r])
                        # scale: magnitude of the terms of the (n-m)-degree Bernstein sum of the m-th differences
                        sc = float(sum(abs(Fr(float(p))) for p in Pn[r, k])) * (2.0 ** m) * (comb(n, min(m, n)) if m else 1) * max(1.0, abs(x), abs(1 - x)) ** (n - m) / Tn[r] ** m
                        sc = max(sc, abs(float(ref)), 1e-300)
                        got = vals[m][r, k, 0]
                        e = max(e, abs(float(Fr(float(got)) - ref)) / sc if np.isfinite(got) else np.inf)
                    err[r] = e
                sub = "eval_is_bernstein" if m == 0 else "deriv_is_exact_derivative"
                site = "n=%d,d=%d" % (n, d) if m == 0 else "n=%d,d=%d,m=%d" % (n, d, m)
                ctx.check_array(sub, site, err, 1e-9, {"P": Pn.reshape(R, -1), "T": Tn, "t": tn})
            # end points exactly
            e0 = np.abs(vals[0][u < 0.1][:, :, 0] - Pn[u < 0.1][:, :, 0]).max(axis=1) if (u < 0.1).any() else np.zeros(0)
            ctx.check_array("starts_at_first_control_point", "n=%d,d=%d" % (n, d), e0, 0.0, {"P": Pn[u < 0.1].reshape(-1, d * (n + 1))})
            m1 = (u >= 0.1) & (u < 0.2)
            e1 = np.abs(vals[0][m1][:, :, 0] - Pn[m1][:, :, -1]).max(axis=1) / np.maximum(1, np.abs(Pn[m1]).max(axis=(1, 2))) if m1.any() else np.zeros(0)
            ctx.check_array("ends_at_last_control_point", "n=%d,d=%d" % (n, d), e1, 1e-12, {"P": Pn[m1].reshape(-1, d * (n + 1))})
            ctx.distinct(np.concatenate([Pn.reshape(R, -1), Tn[:, None], tn[:, None]], axis=1))
    numeric_histories(ctx, bz, rng, 12 if ctx.quick else 300)
    ctx.sample({"what": "Bezier.eval/deriv vs exact Bernstein", "degrees": degs})


def numeric_histories(ctx, bz, rng, reps):
    """numeric (DM) control points and numeric times, several evaluations / derivatives on the SAME curve object:
    the object must behave as a value (no evaluation may change what later ones return)"""
    for _ in range(reps):
        n, d = int(rng.integers(1, 8)), int(rng.integers(1, 4))
        Pn = O.signed_loguniform(rng, 1e-2, 10, (d, n + 1))
        T = float(O.loguniform(rng, 0.1, 10, 1)[0])
        B = bz.Bezier(ca.DM(Pn), T)
        calls = []
        for _k in range(6):
            t = float(rng.uniform(-0.2, 1.2) * T)
            m = int(rng.integers(0, n + 1))
            try:
                val = B.eval(t) if m == 0 else B.deriv(m).eval(t)
                val = np.array(ca.DM(val).full()).ravel()
            except Exception as e:
                ctx.violation("raises_numeric_bezier", "Bezier", {"exception": type(e).__name__, "message": str(e)[:200], "n": n, "d": d, "m": m})
                val = None
            calls.append((t, m, val))
        errs = []
        for t, m, val in calls:
            if val is None or len(val) != d:
                errs.append(np.inf)
                continue
            e = 0.0
            for k in range(d):
                ref = float(exact_curve_derivative(Pn[k], T, t, m))
                sc = max(abs(ref), float(np.abs(Pn[k]).sum()) * (2.0 ** m) * max(1.0, abs(t / T), abs(1 - t / T)) ** n / T ** m, 1e-300)
                e = max(e, abs(val[k] - ref) / sc)
            errs.append(e)
        ctx.check_array("numeric_curve_is_a_value", "Bezier", errs, 1e-9, {"call_index": np.arange(len(errs)), "t": np.array([c[0] for c in calls]), "order": np.array([c[1] for c in calls])})
        Pafter = np.array(ca.DM(B.P).full())
        ctx.check_array("control_points_unchanged_by_evaluation", "Bezier", [np.abs(Pafter - Pn).max() if Pafter.shape == Pn.shape else np.inf], 0.0, {"n": [n], "d": [d]})


def solvers(ctx, bz, rng, N):
    for name, mk, nb, nrows in (("bezier3", bz.derive_bezier3, 2, 3), ("bezier7", bz.derive_bezier7, 4, 5)):
        fs = lib_call(ctx, "derive", name, mk, not_implemented_ok=False)
        if fs is None:
            continue
        solve, traj = fs[name + "_solve"], fs[name + "_traj"]
        w0, w1, T, t = ca.SX.sym("w0", nb), ca.SX.sym("w1", nb), ca.SX.sym("T"), ca.SX.sym("t")
        P = solve(w0, w1, T)
        ev = Ev(name, [w0, w1, T], [P, traj(0, T, P), traj(T, T, P)], probe=False)
        W0 = O.signed_loguniform(rng, 1e-2, 10, (N, nb))
        W1 = O.signed_loguniform(rng, 1e-2, 10, (N, nb))
        W0[rng.random(N) < 0.05] = 0
        # boundary vectors that coincide (a closed lap through the same moving state), or share some entries exactly
        same = rng.random(N) < 0.05
        W1[same] = W0[same]
        part = rng.random(N) < 0.05
        W1[part, 0] = W0[part, 0]
        Tn = O.loguniform(rng, 0.005, 2e4, N)  # all durations T > 0: from milliseconds to hours
        (Pn, r0, r1), _ = ev(W0, W1, Tn)
        fin = np.isfinite(Pn).all(axis=(1, 2)) & np.isfinite(r0).all(axis=(1, 2)) & np.isfinite(r1).all(axis=(1, 2))
        # natural scale of the k-th derivative condition: control-point magnitude / T^k
        pts = np.abs(Pn).max(axis=(1, 2))
        inp = {"wp_0": W0, "wp_1": W1, "T": Tn}
        for k, label in enumerate(["position", "velocity", "acceleration", "jerk"][:nb]):
            sc = np.maximum(np.maximum(np.abs(W0[:, k]), np.abs(W1[:, k])), pts * (comb(2 * nb - 1, k) * 2.0 ** k) / Tn ** k)
            sc = np.maximum(sc, 1e-300)
            e0 = np.where(fin, np.abs(r0[:, k, 0] - W0[:, k]) / sc, np.inf)
            e1 = np.where(fin, np.abs(r1[:, k, 0] - W1[:, k]) / sc, np.inf)
            ctx.check_array("start_%s_met" % label, name + "_solve", e0, 1e-9, inp)
            ctx.check_array("end_%s_met" % label, name + "_solve", e1, 1e-9, inp)
        ctx.distinct(np.concatenate([W0, W1, Tn[:, None]], axis=1), np.abs(W0 - W1).max(axis=1) > 0)
        ctx.sample({"solver": name, "wp_0": W0[1], "wp_1": W1[1], "T": Tn[1], "P": Pn[1]})


def traj_consistency(ctx, bz, rng, N):
    """rows of *_traj and outputs of bezier_multirotor are successive time derivatives (AD in t)"""
    for name, mk, ncp, nrows in (("bezier3", bz.derive_bezier3, 4, 3), ("bezier7", bz.derive_bezier7, 8, 5)):
        fs = lib_call(ctx, "derive", name, mk, not_implemented_ok=False)
        if fs is None:
            continue
        traj = fs[name + "_traj"]
        t, T, P = ca.SX.sym("t"), ca.SX.sym("T"), ca.SX.sym("P", 1, ncp)
        r = traj(t, T, P)
        ev = Ev(name + "t", [t, T, P], [r, ca.jacobian(r, t)], probe=False)
        Tn = O.loguniform(rng, 0.2, 20, N)
        tn = rng.uniform(-0.2, 1.2, N) * Tn
        Pn = O.signed_loguniform(rng, 1e-2, 10, (N, 1, ncp))
        (rv, dr), _ = ev(tn, Tn, Pn)
        rv, dr = rv[:, :, 0], dr[:, :, 0]
        for k in range(nrows - 1):
            sc = np.maximum(1e-300, np.maximum(np.abs(rv[:, k + 1]), np.abs(Pn).max(axis=(1, 2)) * (2.0 * ncp) ** (k + 1) / Tn ** (k + 1)))
            ctx.check_array("row_%d_is_derivative_of_row_%d" % (k + 1, k), name + "_traj", np.abs(dr[:, k] - rv[:, k + 1]) / sc, 1e-9, {"t": tn, "T": Tn, "P": Pn.reshape(N, -1)})
        # row 0 is the curve itself
        ref = np.array([float(exact_curve_derivative(Pn[i, 0], Tn[i], tn[i], 0)) for i in range(min(N, 300))])
        ctx.check_array("row_0_is_curve", name + "_traj", np.abs(rv[: len(ref), 0] - ref) / np.maximum(1, np.abs(Pn[: len(ref)]).max(axis=(1, 2)) * 2.0 ** ncp), 1e-9, {"t": tn[: len(ref)], "T": Tn[: len(ref)]})
        ctx.distinct(np.concatenate([tn[:, None], Tn[:, None], Pn.reshape(N, -1)], axis=1))
    fm = lib_call(ctx, "derive", "bezier_multirotor", lambda: bz.derive_multirotor()["bezier_multirotor"], not_implemented_ok=False)
    if fm is not None:
        t, T = ca.SX.sym("t"), ca.SX.sym("T")
        PX, PY, PZ, Pp = ca.SX.sym("PX", 1, 8), ca.SX.sym("PY", 1, 8), ca.SX.sym("PZ", 1, 8), ca.SX.sym("Pp", 1, 4)
        x, y, z, psi, dpsi, ddpsi, v, a, j, s = fm(t, T, PX, PY, PZ, Pp)
        pos = ca.vertcat(x, y, z)
        outs = [v, ca.jacobian(pos, t), a, ca.jacobian(v, t), j, ca.jacobian(a, t), s, ca.jacobian(j, t), dpsi, ca.jacobian(psi, t), ddpsi, ca.jacobian(dpsi, t)]
        ev = Ev("mr", [t, T, PX, PY, PZ, Pp], outs, probe=False)
        Tn = O.loguniform(rng, 0.2, 20, N)
        tn = rng.uniform(0, 1, N) * Tn
        Ps = [O.signed_loguniform(rng, 1e-2, 10, (N, 1, k)) for k in (8, 8, 8, 4)]
        vals, _ = ev(tn, Tn, *Ps)
        names = ["v=dpos/dt", "a=dv/dt", "j=da/dt", "s=dj/dt", "psidot=dpsi/dt", "psiddot=dpsidot/dt"]
        pm = np.maximum(np.abs(Ps[0]).max(axis=(1, 2)), np.maximum(np.abs(Ps[1]).max(axis=(1, 2)), np.abs(Ps[2]).max(axis=(1, 2))))
        for k, nm in enumerate(names):
            A, B = vals[2 * k][:, :, 0], vals[2 * k + 1][:, :, 0]
            order = (k + 1) if k < 4 else (k - 3)
            sc = np.maximum(np.abs(A).max(axis=1), (pm if k < 4 else np.abs(Ps[3]).max(axis=(1, 2))) * 16.0 ** order / Tn ** order)
            ctx.check_array("multirotor_" + nm, "bezier_multirotor", np.abs(A - B).max(axis=1) / np.maximum(sc, 1e-300), 1e-9, {"t": tn, "T": Tn})
        # the outputs themselves are the Bezier curves of their control points (position septic, yaw cubic -- yaw control
        # points range over +-10 rad: a planned turn through 180 degrees is a polynomial, not an angle wrapped into (-pi, pi])
        evv = Ev("mrv", [t, T, PX, PY, PZ, Pp], [x, y, z, psi], probe=False)
        M = min(N, 200)
        vv, _ = evv(tn[:M], Tn[:M], *[p[:M] for p in Ps])
        for k, nm in enumerate(("x", "y", "z", "psi")):
            ref = np.array([float(exact_curve_derivative(Ps[k][i, 0], Tn[i], tn[i], 0)) for i in range(M)])
            ctx.check_array("multirotor_output_is_bezier_curve", nm, np.abs(vv[k][:, 0, 0] - ref) / np.maximum(1, np.abs(Ps[k][:M]).max(axis=(1, 2))), 1e-9,
                            {"t": tn[:M], "T": Tn[:M], "control_points": Ps[k][:M].reshape(M, -1)})
        ctx.distinct(np.concatenate([tn[:, None], Tn[:, None]] + [p.reshape(N, -1) for p in Ps], axis=1))
