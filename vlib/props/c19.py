"""C19 -- SymPy <-> CasADi expression conversion preserves meaning (grammar-based differential testing)."""
from __future__ import annotations

import math
import warnings

import numpy as np
import casadi as ca
import sympy as sp

from .lie_common import lib_call

SHARDS = {"quick": 16, "thorough": 16}
REQUIRED_REACH = ['_sympy_parser', 'casadi_to_sympy']
RULE = ("random expression trees (depth <= 5 quick / 6 thorough): SymPy side over Add, Mul, Integer, Rational (+-), Float (non-integer, "
        "negative, integer-valued), Pow with integer / 1/2 / rational / float exponents on positive bases, Symbol, sin, cos, tan, atan, "
        "Matrix, user functions through f_dict with 1-3 entries, cse=True; CasADi side over every opcode casadi_to_sympy maps "
        "(arithmetic, powers, exp/log/sqrt, trig and hyperbolic and inverses, comparisons, and/or/not over comparison results, "
        "floor/ceil/fmod/remainder/fabs/sign/copysign, if_else, fmin/fmax, erf, atan2, constants incl. non-integers, matrices); each "
        "accepted tree is evaluated at up to 4 random points of its domain on both sides (1e-9 relative, booleans as 0/1); a "
        "disagreement is reduced to the smallest disagreeing sub-tree whose root operator names the mechanism; an exception from the "
        "converter counts as 'rejected' (allowed); non-trivial = tree with at least one operator; distinct = distinct tree strings")
ASSUMPTIONS = ["meaning of a SymPy expression = its evalf value; meaning of a CasADi expression = its Function evaluation",
               "numeric operands of logical and/or/not are not generated (CasADi truthiness vs SymPy simplification is not among the constructs listed)",
               "points within rounding distance of a discontinuity (floor, sign, comparisons, mod) are discarded when two nearby points agree"]


# ------------------------------------------------------------------------------ helpers
class _Timeout(Exception):
    pass


class time_limit:
    """SymPy occasionally takes minutes on a pathological tree (towers of powers of huge numbers): every oracle
    evaluation and every conversion is capped; a cap that fires makes that tree 'evalfail'/'rejected', never a verdict"""

    def __init__(self, seconds):
        self.s = seconds

    def __enter__(self):
        import signal
        import time

        def h(sig, frm):
            raise _Timeout()

        self.t0 = time.monotonic()
        self.outer = signal.getitimer(signal.ITIMER_REAL)[0]  # an enclosing cap keeps running
        self.old = signal.signal(signal.SIGALRM, h)
        signal.setitimer(signal.ITIMER_REAL, min(self.s, self.outer) if self.outer > 0 else self.s)

    def __exit__(self, *a):
        import signal
        import time
        signal.setitimer(signal.ITIMER_REAL, 0)
        signal.signal(signal.SIGALRM, self.old)
        if self.outer > 0:
            signal.setitimer(signal.ITIMER_REAL, max(self.outer - (time.monotonic() - self.t0), 1e-3))
        return False


def exact(x):
    """python float -> SymPy Float holding exactly that binary value with 70 digits of working precision (SymPy's default
    15-digit Floats round every intermediate result: floor(a/b) at a/b == 1, acos(exp(x - x)) ... come out wrong)"""
    return sp.Float(float(x), 70)


def sym_value(s, subs):
    """numeric value of a sympy object (or python bool/number) at subs; raises if not evaluable.
    Floating-point atoms and the evaluation point are first re-created as 70-digit Floats holding the same binary values;
    the value is then taken at 30 and 60 digits, which must agree (otherwise the point is ill-conditioned)"""
    if isinstance(s, bool):
        return 1.0 if s else 0.0
    if isinstance(s, (int, float)):
        return float(s)
    with time_limit(4.0):
        return _sym_value(s, subs)


def _sym_value(s, subs):
    if hasattr(s, "atoms"):
        fl = {f: exact(f) for f in s.atoms(sp.Float)}
        if fl:
            s = s.xreplace(fl)
    v = s.subs({k: exact(x) for k, x in subs.items()}) if hasattr(s, "subs") else s
    if v is sp.true:
        return 1.0
    if v is sp.false:
        return 0.0
    if isinstance(v, bool):
        return 1.0 if v else 0.0
    v30 = complex(sp.N(v, 30))
    v60 = complex(sp.N(v, 60))
    if abs(v60.imag) > 1e-12 * max(1, abs(v60.real)):
        raise ValueError("complex")
    # the oracle must be stable under its own working precision, otherwise the point is numerically ill-conditioned
    if not close(v30.real, v60.real):
        raise IllConditioned()
    return v60.real


def double_eval(expr, names, values):
    """second opinion: the SymPy expression evaluated in plain double precision (math module), operation by operation.
    A faithful translation reproduces CasADi's double result even where the expression is ill-conditioned (atanh of
    tanh(12), cos of 7e10, acos near 1), while a wrong translation differs in both arithmetics."""
    import math as _m
    try:
        with time_limit(4.0):
            syms = [sp.Symbol(n) for n in names]
            mods = [{"sign": lambda x: (x > 0) - (x < 0), "Abs": abs, "erf": _m.erf, "floor": _m.floor, "ceiling": _m.ceil,
                     "Mod": lambda a, b: a % b, "Min": min, "Max": max}, "math"]
            f = sp.lambdify(syms, expr, modules=mods)
            v = f(*[float(x) for x in values])
        if isinstance(v, bool):
            return 1.0 if v else 0.0
        if v is sp.true:
            return 1.0
        if v is sp.false:
            return 0.0
        v = complex(v)
        if v.imag != 0:
            return None
        return v.real
    except Exception:
        return None


class IllConditioned(Exception):
    pass


def close(a, b):
    if not (math.isfinite(a) and math.isfinite(b)):
        return (math.isnan(a) and math.isnan(b)) or a == b
    return abs(a - b) <= 1e-9 * max(1.0, abs(a), abs(b))


# ------------------------------------------------------------------------------ running error analysis
def _rebuilders():
    U = {"OP_NEG": lambda a: -a, "OP_EXP": ca.exp, "OP_LOG": ca.log, "OP_SQRT": ca.sqrt, "OP_SQ": lambda a: a * a, "OP_TWICE": lambda a: 2 * a,
         "OP_SIN": ca.sin, "OP_COS": ca.cos, "OP_TAN": ca.tan, "OP_ASIN": ca.asin, "OP_ACOS": ca.acos, "OP_ATAN": ca.atan, "OP_FLOOR": ca.floor,
         "OP_CEIL": ca.ceil, "OP_FABS": ca.fabs, "OP_SIGN": ca.sign, "OP_ERF": ca.erf, "OP_INV": lambda a: 1 / a, "OP_SINH": ca.sinh,
         "OP_COSH": ca.cosh, "OP_TANH": ca.tanh, "OP_ASINH": ca.asinh, "OP_ACOSH": ca.acosh, "OP_ATANH": ca.atanh, "OP_NOT": ca.logic_not,
         "OP_LOG1P": ca.log1p, "OP_EXPM1": ca.expm1}
    B = {"OP_ADD": lambda a, b: a + b, "OP_SUB": lambda a, b: a - b, "OP_MUL": lambda a, b: a * b, "OP_DIV": lambda a, b: a / b,
         "OP_POW": lambda a, b: a ** b, "OP_CONSTPOW": lambda a, b: a ** b, "OP_LT": lambda a, b: a < b, "OP_LE": lambda a, b: a <= b,
         "OP_EQ": ca.eq, "OP_NE": ca.ne, "OP_AND": ca.logic_and, "OP_OR": ca.logic_or, "OP_FMOD": ca.fmod, "OP_REMAINDER": ca.remainder,
         "OP_COPYSIGN": ca.copysign, "OP_IF_ELSE_ZERO": ca.if_else_zero if hasattr(ca, "if_else_zero") else (lambda c, v: ca.if_else(c, v, 0)),
         "OP_FMIN": ca.fmin, "OP_FMAX": ca.fmax, "OP_ATAN2": ca.atan2, "OP_HYPOT": ca.hypot}
    return ({getattr(ca, k): v for k, v in U.items() if hasattr(ca, k)}, {getattr(ca, k): v for k, v in B.items() if hasattr(ca, k)})


_UNB, _BINB = _rebuilders()


def rounding_error_bound(e, V, pt, cap=300):
    """first-order bound on the error of evaluating the SX expression e at pt in double precision: every operation result r_k
    is replaced by r_k (1 + d_k); the bound is sum_k |d e / d d_k| 2^-53 (running error analysis).  None if e contains an
    operation this rebuild does not know.  Used only to classify a disagreement: a double-precision value that cannot be
    trusted to the comparison tolerance says nothing about the translation."""
    deltas, memo = [], {}

    def rb(x):
        h = x.element_hash()
        if h in memo:
            return memo[h]
        if x.is_symbolic() or x.is_constant():
            memo[h] = x
            return x
        if len(deltas) >= cap:
            raise KeyError("too large")
        op = x.op()
        if x.n_dep() == 1 and op in _UNB:
            r = _UNB[op](rb(x.dep(0)))
        elif x.n_dep() == 2 and op in _BINB:
            r = _BINB[op](rb(x.dep(0)), rb(x.dep(1)))
        else:
            raise KeyError(op)
        d = ca.SX.sym("d%d" % len(deltas))
        deltas.append(d)
        r = r * (1 + d)
        memo[h] = r
        return r

    try:
        r = rb(e)
        if not deltas:
            return 0.0
        D = ca.vertcat(*deltas)
        J = ca.Function("J", list(V) + [D], [ca.jacobian(r, D)])
        j = np.array(J(*list(pt), np.zeros(len(deltas)))).ravel()
        if not np.isfinite(j).all():
            return float("inf")
        return float(np.abs(j).sum() * 2.0 ** -53)
    except KeyError:
        return None
    except Exception:
        return None


# ------------------------------------------------------------------------------ CasADi -> SymPy
UN = {
    "neg": lambda x: -x, "exp": ca.exp, "log": ca.log, "sqrt": ca.sqrt, "sq": lambda x: x ** 2, "twice": lambda x: 2 * x,
    "sin": ca.sin, "cos": ca.cos, "tan": ca.tan, "asin": ca.asin, "acos": ca.acos, "atan": ca.atan, "floor": ca.floor,
    "ceil": ca.ceil, "fabs": ca.fabs, "sign": ca.sign, "erf": ca.erf, "inv": lambda x: 1 / x, "sinh": ca.sinh, "cosh": ca.cosh,
    "tanh": ca.tanh, "asinh": ca.asinh, "acosh": ca.acosh, "atanh": ca.atanh,
}
BI = {
    "add": lambda x, y: x + y, "sub": lambda x, y: x - y, "mul": lambda x, y: x * y, "div": lambda x, y: x / y,
    "pow": lambda x, y: x ** y, "fmod": ca.fmod, "fmin": ca.fmin, "fmax": ca.fmax, "atan2": ca.atan2, "rem": ca.remainder,
    "copysign": ca.copysign, "constpow": lambda x, y: x ** 2.5,
}
CMPS = {"lt": lambda x, y: x < y, "le": lambda x, y: x <= y, "eq": ca.eq, "ne": ca.ne, "gt": lambda x, y: x > y, "ge": lambda x, y: x >= y}
OPNAME = {getattr(ca, n): n for n in dir(ca) if n.startswith("OP_")}


class SXGen:
    def __init__(self, rng, V):
        self.rng = rng
        self.V = V

    def leaf(self):
        r = self.rng.random()
        if r < 0.6:
            return self.V[self.rng.integers(len(self.V))]
        if r < 0.8:
            return ca.SX(int(self.rng.integers(-3, 4)))
        if r < 0.86:  # constants that are tiny or a hair away from an integer (must not be rounded)
            return ca.SX(float(self.rng.choice([3.0000004, -1.9999997, 1.0000002, 0.9999996])))
        return ca.SX(float(np.round(self.rng.normal() * 3, 3)))

    def cond(self, d):
        """boolean-valued tree: comparisons of numeric sub-trees, combined with and/or/not.  Booleans are never used
        as operands of comparisons or arithmetic (CasADi's 0/1 truthiness vs SymPy's Boolean algebra is not among the
        constructs the statement lists)"""
        r = self.rng.random()
        k = list(CMPS)[self.rng.integers(len(CMPS))]
        if self.rng.random() < 0.15 and k in ("eq", "ne"):
            e = self.num(d - 1, False)
            c = CMPS[k](e, e + 0)  # equal values, not structurally identical in general
        else:
            c = CMPS[k](self.num(d - 1, False), self.num(d - 1, False))
        if d > 1 and r < 0.25:
            return ca.logic_and(c, self.cond(d - 1))
        if d > 1 and r < 0.5:
            return ca.logic_or(c, self.cond(d - 1))
        if r < 0.6:
            return ca.logic_not(c)
        return c

    def num(self, d, allow_bool=True):
        if d <= 0 or self.rng.random() < 0.2:
            return self.leaf()
        r = self.rng.random()
        if r < 0.35:
            k = list(UN)[self.rng.integers(len(UN))]
            return UN[k](self.num(d - 1, False))
        if r < 0.8:
            k = list(BI)[self.rng.integers(len(BI))]
            return BI[k](self.num(d - 1, False), self.num(d - 1, False))
        if r < 0.92 or not allow_bool:
            return ca.if_else(self.cond(d - 1), self.num(d - 1, False), self.num(d - 1, False))
        return self.cond(d - 1)  # a boolean as the final value (0/1)


def c2s_agree(cts, e, V, names, pts):
    """-> ('rejected'|'evalfail'|'ok'|'bad', detail)"""
    try:
        with warnings.catch_warnings():
            warnings.simplefilter("ignore")
            with time_limit(20.0):
                s = cts(e)
    except Exception as ex:
        return "rejected", type(ex).__name__
    F = ca.Function("F", V, [e])
    n_ok = 0
    for pt in pts:
        ref = float(F(*pt))
        if not math.isfinite(ref) or abs(ref) > 1e8:
            continue
        subs = {sp.Symbol(n): float(v) for n, v in zip(names, pt)}
        try:
            val = sym_value(s, subs)
        except IllConditioned:
            continue
        except Exception as ex:
            return "evalfail", type(ex).__name__
        if math.isnan(val):
            # SymPy declares the point outside the domain: accepted when some live CasADi node is undefined there too
            # (log of a negative number, 0/0, atan2(0, 0)); a NaN although every contributing node is finite is a wrong
            # translation (e.g. of a guarded singularity) and goes through the disagreement pipeline below
            if has_nonfinite_intermediate(e, V, pt) or undefined_in_sympy_only(e, V, pt):
                continue
        n_ok += 1
        if not close(val, ref):
            vd = double_eval(s, names, pt)
            if vd is not None and close(vd, ref):
                continue  # agrees operation-by-operation in double precision: only the conditioning differs
            pert = [float(F(*[v * (1 + k) for v in pt])) for k in (1e-13, -1e-13)]
            if any(not close(pv, ref) for pv in pert):
                continue  # ill-conditioned at this point in double precision (e.g. fmod by a tiny divisor)
            reb = rounding_error_bound(e, V, pt)
            if reb is not None and reb * 8 > 1e-9 * max(1.0, abs(ref)):
                continue  # double evaluation of the source is itself not accurate to the tolerance here (cos of 7e10 + x)
            if discontinuity_margin(e, V, pt) < 1e-9:
                continue
            if has_nonfinite_intermediate(e, V, pt):
                # some sub-expression is undefined at this point (log of a negative number feeding fmax, ...): the point is
                # not in the domain of the expression even though IEEE arithmetic produced a finite final value
                continue
            # discontinuity artefact? both nearby points must agree to discard
            agree = 0
            for k in (1e-7, -1e-7):
                p2 = [v * (1 + k) + k for v in pt]
                r2 = float(F(*p2))
                try:
                    v2 = sym_value(s, {sp.Symbol(n): float(v) for n, v in zip(names, p2)})
                    agree += close(v2, r2)
                except Exception:
                    pass
            if agree == 2:
                continue
            return "bad", {"point": list(map(float, pt)), "casadi_value": ref, "sympy_value": val, "sympy_expr": str(s)[:200]}
    return ("ok" if n_ok else "nopoints"), None


def live_nodes(e, V, pt, cap=400):
    """nodes of e that contribute to its value at pt: the value operand of an if_else_zero whose condition is false there is
    dead (the guarded branch of `if_else(x != 0, sin(x)/x, 1)` at x = 0 is the library's own idiom, not a domain error)"""
    nodes, seen, stack = [], set(), [e]
    while stack and len(nodes) < cap:
        x = stack.pop()
        h = x.element_hash()
        if h in seen or x.is_symbolic() or x.is_constant():
            continue
        seen.add(h)
        nodes.append(x)
        if x.op() == ca.OP_IF_ELSE_ZERO:
            stack.append(x.dep(0))
            try:
                c = float(ca.Function("c", V, [x.dep(0)])(*pt))
            except Exception:
                c = 1.0
            if c != 0:
                stack.append(x.dep(1))
            continue
        for i in range(x.n_dep()):
            stack.append(x.dep(i))
    return nodes


def has_nonfinite_intermediate(e, V, pt):
    nodes = live_nodes(e, V, pt)
    if not nodes:
        return False
    F = ca.Function("N", V, [ca.vertcat(*nodes)])
    return not np.isfinite(np.array(F(*pt))).all()


def undefined_in_sympy_only(e, V, pt):
    """live nodes where IEEE/CasADi defines a value and SymPy does not: atan2(0, 0)"""
    for x in live_nodes(e, V, pt):
        if x.op() == ca.OP_ATAN2:
            a, b = [float(ca.Function("c", V, [x.dep(i)])(*pt)) for i in (0, 1)]
            if a == 0 and b == 0:
                return True
    return False


def discontinuity_margin(e, V, pt):
    """smallest distance of any discontinuous node of e to its jump at pt: floor/ceil at an integer, fmod at an integer
    quotient, remainder at a half-integer quotient, sign at 0, comparisons at equality.  A point closer than 1e-9 to a
    jump (e.g. fmod(c, c): quotient exactly 1) cannot be decided by comparing two arithmetics."""
    margins, seen, stack = [], set(), [e]
    while stack and len(seen) < 600:
        x = stack.pop()
        h = x.element_hash()
        if h in seen or x.is_symbolic() or x.is_constant():
            continue
        seen.add(h)
        op = x.op()
        d = [x.dep(i) for i in range(x.n_dep())]
        if op in (ca.OP_FLOOR, ca.OP_CEIL):
            margins.append(ca.fabs(d[0] - ca.floor(d[0] + 0.5)))
        elif op == ca.OP_FMOD:
            q = d[0] / d[1]
            margins.append(ca.fabs(q - ca.floor(q + 0.5)))
        elif op == ca.OP_REMAINDER:
            q = d[0] / d[1]
            margins.append(ca.fabs(q - ca.floor(q) - 0.5))
        elif op == ca.OP_SIGN:
            margins.append(ca.fabs(d[0]))
        elif op == ca.OP_ATAN2:  # branch cut on the negative real axis: y = +-0 with x < 0 (signed zeros decide the sign of pi)
            margins.append(ca.if_else(d[1] < 0, ca.fabs(d[0]) / ca.fmax(1e-300, ca.fabs(d[1])), 1.0))
        elif op in (ca.OP_LT, ca.OP_LE):
            margins.append(ca.fabs(d[0] - d[1]) / ca.fmax(1, ca.fabs(d[0])))
        elif op in (ca.OP_EQ, ca.OP_NE):
            diff = ca.fabs(d[0] - d[1]) / ca.fmax(1, ca.fabs(d[0]))
            margins.append(ca.if_else(diff == 0, 1.0, diff))  # exact equality is decidable in both arithmetics
        for y in d:
            stack.append(y)
    if not margins:
        return float("inf")
    F = ca.Function("M", V, [ca.mmin(ca.vertcat(*margins))])
    m = float(F(*pt))
    return m if m == m else 0.0


def minimal_sx(cts, e, V, names, pts):
    """smallest sub-expression that still disagrees; its root opcode names the mechanism"""
    cur = e
    for _ in range(50):
        found = False
        if cur.is_symbolic() or cur.is_constant():
            break
        for i in range(cur.n_dep()):
            d = cur.dep(i)
            if d.is_symbolic() or d.is_constant():
                continue
            st, _ = c2s_agree(cts, d, V, names, pts)
            if st == "bad":
                cur = d
                found = True
                break
        if not found:
            break
    return cur


def casadi_to_sympy_dir(ctx, n_trees, depth):
    from cyecca.symbolic import casadi_to_sympy as cts
    rng = ctx.rng("c19:c2s")
    names = ["a", "b", "c"]
    V = [ca.SX.sym(n) for n in names]
    gen = SXGen(rng, V)
    seen = set()
    for it in range(n_trees):
        e = gen.num(depth)
        if e.is_constant() and rng.random() < 0.8:
            continue
        key = str(e)
        ctx.count("c2s_trees")
        pts = [rng.normal(size=3) * rng.choice([0.5, 2.0, 5.0]) for _ in range(4)]
        st, det = c2s_agree(cts, e, V, names, pts)
        ctx.count("c2s_" + st)
        if st in ("rejected", "evalfail"):
            ctx.count("c2s_%s:%s" % (st, det))
        if st in ("ok", "bad"):
            ctx.tally("casadi_to_sympy:tree")
            if key not in seen:
                seen.add(key)
        if st == "bad":
            m = minimal_sx(cts, e, V, names, pts)
            op = OPNAME.get(m.op(), str(m.op())) if not (m.is_symbolic() or m.is_constant()) else ("OP_CONST" if m.is_constant() else "OP_PARAMETER")
            _, mdet = c2s_agree(cts, m, V, names, pts)
            ctx.violation("casadi_to_sympy_value", op, {"expr": key[:300], "minimal_subexpr": str(m)[:200], **(mdet or det)})
        if it < 3:
            ctx.sample({"direction": "casadi->sympy", "tree": key[:200], "status": st})
    # matrices: converted as a whole, every element then checked like a scalar tree
    for _mi in range(max(6, n_trees // 50)):
        nr, nc = [(2, 2), (3, 2), (2, 3), (3, 1), (1, 3), (4, 2)][_mi % 6]
        M = ca.SX(nr, nc)
        # every second matrix keeps structural zeros (what Jacobians, ca.diag and entry-by-entry construction produce): the
        # translation must put every entry where the dense view has it
        sparse_mat = _mi % 2 == 1
        for i in range(nr):
            for j in range(nc):
                if sparse_mat and (i + 2 * j + _mi // 2) % 3 == 0:
                    continue
                M[i, j] = gen.num(2)
        if sparse_mat:
            ctx.tally("casadi_to_sympy:sparse_matrix")
        try:
            with warnings.catch_warnings():
                warnings.simplefilter("ignore")
                S = cts(M)
        except Exception:  # an error is always an allowed answer ("raise instead of altering")
            ctx.count("c2s_matrix_rejected")
            continue
        ctx.check("casadi_to_sympy_matrix_shape", "matrix", tuple(S.shape) == (nr, nc), {"shape": str(getattr(S, "shape", None)), "expected": [nr, nc]})
        if tuple(S.shape) != (nr, nc):
            continue
        pts = [rng.normal(size=3) * 2 for _ in range(3)]
        for i in range(nr):
            for j in range(nc):
                el = M[i, j]
                st, det = c2s_agree(lambda _e, S=S, i=i, j=j: S[i, j], el, V, names, pts)
                if st in ("ok", "bad"):
                    ctx.tally("casadi_to_sympy:matrix_element")
                if st == "bad":
                    m = minimal_sx(cts, el, V, names, pts)
                    stm, _ = c2s_agree(cts, el, V, names, pts)
                    op = OPNAME.get(m.op(), str(m.op())) if (stm == "bad" and not (m.is_symbolic() or m.is_constant())) else "matrix_layout"
                    ctx.violation("casadi_to_sympy_value", op, {"expr": str(M)[:300], "element": [i, j], **det})
    hs = np.array([hash(k) & 0xFFFFFFFFFFFF for k in seen], dtype=np.float64)
    if len(hs):
        ctx.distinct(hs[:, None])
    # comparisons at exact ties: both operands are the same double (structural ties are decidable in both arithmetics)
    tie_exprs = {"le": V[0] <= V[1], "ge": V[0] >= V[1], "lt": V[0] < V[1], "gt": V[0] > V[1], "eq": ca.eq(V[0], V[1]), "ne": ca.ne(V[0], V[1]),
                 "if_le": ca.if_else(V[0] <= V[1], V[2], -V[2]), "if_ge": ca.if_else(V[0] >= V[1], V[2], -V[2]), "if_lt": ca.if_else(V[0] < V[1], V[2], -V[2]),
                 "fmin": ca.fmin(V[0], V[1]) + V[2], "fmax": ca.fmax(V[0], V[1]) + V[2], "sat": ca.if_else(V[0] > V[1], V[1], ca.if_else(V[0] < -V[1], -V[1], V[0]))}
    for tname, e in tie_exprs.items():
        for tv in (0.0, 1.5, -2.25, 1e-300, 3.0):
            pt = np.array([tv, tv, 0.75])
            F = ca.Function("T", V, [e])
            ref = float(F(*pt))
            try:
                with warnings.catch_warnings():
                    warnings.simplefilter("ignore")
                    val = sym_value(cts(e), {sp.Symbol(n): float(v) for n, v in zip(names, pt)})
            except Exception:
                ctx.count("c2s_tie_rejected")
                continue
            ctx.tally("casadi_to_sympy:tie")
            if not close(val, ref):
                ctx.violation("casadi_to_sympy_value", "comparison_at_tie", {"expr": str(e), "kind": tname, "point": pt.tolist(), "casadi_value": ref, "sympy_value": val})
    # guarded singularities evaluated at the guard (the idiom of the library's own series: if_else(|x| < eps, taylor, closed form))
    x_, y_ = V[0], V[1]
    guarded = {
        "sinc_at_0": (ca.if_else(ca.ne(x_, 0), ca.sin(x_) / x_, 1), [np.array([0.0, 1.0, 0.0]), np.array([0.3, 1.0, 0.0]), np.array([-2.0, 0.0, 0.0])]),
        "xlogx_at_0": (ca.if_else(x_ > 0, x_ * ca.log(x_), 0), [np.array([0.0, 0.0, 0.0]), np.array([0.5, 0.0, 0.0]), np.array([2.0, 0.0, 0.0])]),
        "inv_diff_at_tie": (ca.if_else(ca.fabs(x_ - y_) > 1e-6, 1 / (x_ - y_), 1e6), [np.array([1.5, 1.5, 0.0]), np.array([1.5, 0.5, 0.0]), np.array([0.0, 0.0, 0.0])]),
        "one_minus_cos_over_x2": (ca.if_else(ca.fabs(x_) < 1e-3, 0.5 - x_ * x_ / 24, (1 - ca.cos(x_)) / (x_ * x_)), [np.array([0.0, 0.0, 0.0]), np.array([5e-4, 0.0, 0.0]), np.array([0.7, 0.0, 0.0])]),
        "sqrt_guard": (ca.if_else(x_ >= 0, ca.sqrt(x_), -ca.sqrt(-x_)) + y_, [np.array([4.0, 1.0, 0.0]), np.array([-4.0, 1.0, 0.0]), np.array([0.0, 1.0, 0.0])]),
        "nested_guard": (ca.if_else(x_ > 0, ca.if_else(y_ > 0, ca.log(x_) + ca.log(y_), ca.log(x_)), 0.25), [np.array([2.0, -1.0, 0.0]), np.array([-2.0, 3.0, 0.0]), np.array([2.0, 3.0, 0.0]), np.array([0.0, 0.0, 0.0])]),
    }
    for gname, (e, gpts) in guarded.items():
        st, det = c2s_agree(cts, e, V, names, gpts)
        ctx.tally("casadi_to_sympy:guarded_singularity")
        if st == "bad":
            ctx.violation("casadi_to_sympy_value", "guarded_singularity", {"expr": str(e)[:200], "kind": gname, **det})
        elif st != "ok":
            ctx.count("c2s_guarded_%s:%s" % (st, gname))
    # remainder / fmod at exact half-integer and integer quotients of either sign (binary fractions: decidable in both arithmetics)
    for oname, e in (("remainder", ca.remainder(V[0], V[1]) + V[2]), ("fmod", ca.fmod(V[0], V[1]) + V[2])):
        for xv, yv in ((-1.5, 1.0), (-3.5, 1.0), (1.5, 1.0), (2.5, 1.0), (-0.5, 1.0), (-2.5, 1.0), (3.0, 2.0), (-3.0, 2.0), (-7.0, 2.0), (4.0, 2.0), (-4.5, 0.25)):
            pt = np.array([xv, yv, 0.125])
            ref = float(ca.Function("T", V, [e])(*pt))
            try:
                with warnings.catch_warnings():
                    warnings.simplefilter("ignore")
                    val = sym_value(cts(e), {sp.Symbol(n): float(v) for n, v in zip(names, pt)})
            except Exception:
                ctx.count("c2s_tie_rejected")
                continue
            ctx.tally("casadi_to_sympy:tie")
            if not close(val, ref):
                ctx.violation("casadi_to_sympy_value", "OP_" + oname.upper(), {"expr": str(e), "kind": "exact tie", "point": pt.tolist(), "casadi_value": ref, "sympy_value": val})
    # floating-point constants must come back unchanged, however close to an integer or to zero they are
    for cval in (1e-7, 2.5e-7, -3e-8, 3.0000004, -1.9999997, 1.0000002, 0.9999996, 1e-12, 2.5, -0.3, 1e-3, 123456.789, 1e20):
        e = ca.SX(cval) * V[0] + ca.if_else(ca.fabs(V[1]) < cval, 1, 2)
        pts = [np.array([1e6, cval * 0.5, 0.0]), np.array([-3.0, cval * 2 + 1e-30, 0.0]), np.array([7e5, -cval * 0.9, 1.0])]
        st, det = c2s_agree(cts, e, V, names, pts)
        ctx.tally("casadi_to_sympy:constant")
        if st == "bad":
            ctx.violation("casadi_to_sympy_value", "OP_CONST", {"constant": cval, **det})
    # ... and constants of extreme magnitude (beyond the 64-bit integer range, near the smallest normal double) used with
    # arguments that bring the value back to O(1)
    for cval in (1e19, 9223372036854775808.0, 1.8446744073709552e19, -6.02214076e23, 1e30, -1e300, 2.0 ** 62, 4.9e-300, -2.2250738585072014e-308):
        e = ca.SX(cval) * V[0] + V[1]
        pts = [np.array([3.0 / cval, 0.5, 0.0]), np.array([-1.25 / cval, 2.0, 0.0]), np.array([0.0, 1.0, 0.0])]
        st, det = c2s_agree(cts, e, V, names, pts)
        ctx.tally("casadi_to_sympy:extreme_constant")
        if st == "bad":
            ctx.violation("casadi_to_sympy_value", "OP_CONST", {"constant": cval, **det})
    # ... also when a matrix is converted: every entry uses (and fills) the caller's table
    symsM = {}
    try:
        sm = cts(ca.vertcat(ca.horzcat(V[0] * V[1], ca.sin(V[2])), ca.horzcat(V[1] + 2, V[0])), symsM)
        s_after = cts(V[0] - V[2], symsM)
        free_m = set(sm.free_symbols)
        conds = [len(symsM) == 3, {str(x_) for x_ in free_m} == {str(v_) for v_ in symsM.values()}, s_after.free_symbols <= set(symsM.values())]
        okm = all(conds)
        detm = {"table": str(symsM), "matrix": str(sm)[:200], "conditions(table has 3 entries, matrix symbols are the table's, later conversion reuses them)": conds, "free": sorted(str(x_) for x_ in free_m), "vals": sorted(str(v_) for v_ in symsM.values())}
        # a pre-filled table is honoured: the caller's symbol (with its assumptions) appears in the result
        pre = {}
        cts(V[0] + 1, pre)
        key0 = list(pre)[0]
        mine = sp.Symbol("theta_user", positive=True)
        pre[key0] = mine
        sm2 = cts(ca.vertcat(V[0] * 2, V[0] + V[1]), pre)
        okm = okm and mine in set(sm2.free_symbols)
        detm["prefilled"] = str(sm2)[:120]
    except Exception as ex:
        okm, detm = True, {"rejected": type(ex).__name__}
        ctx.count("c2s_matrix_table_rejected")
    ctx.tally("casadi_to_sympy:matrix_with_table")
    ctx.check("casadi_to_sympy_symbol_table", "matrix_with_shared_table", okm, detm)
    # symbol table: the same parameter always maps to the same sympy symbol within one table
    syms = {}
    s1 = cts(V[0] + V[1], syms)
    s2 = cts(V[0] * 3, syms)
    ctx.check("casadi_to_sympy_symbol_table", "shared_table", (s1.free_symbols & s2.free_symbols) == {sp.Symbol("a")} and len(syms) == 2,
              {"s1": str(s1), "s2": str(s2), "table": str(syms)})


# ------------------------------------------------------------------------------ SymPy -> CasADi
class SPGen:
    def __init__(self, rng, X, funcs):
        self.rng = rng
        self.X = X
        self.funcs = funcs  # list of (sympy Function, name)

    def const(self):
        r = self.rng.random()
        if r < 0.3:
            return sp.Integer(int(self.rng.integers(-4, 5)))
        if r < 0.5:
            return sp.Rational(int(self.rng.integers(-7, 8)), int(self.rng.integers(1, 9)))
        if r < 0.8:
            return sp.Float(float(np.round(self.rng.normal() * 3, 3)))  # non-integer, maybe negative
        if r < 0.9:
            return sp.Float(float(self.rng.choice([3.0000004, -1.9999997, 0.9999996, 1.0000002])))
        return sp.Float(float(self.rng.integers(-3, 4)))  # integer-valued float

    def positive(self, d):
        """sub-expression that is > 0 everywhere (base for non-integer powers)"""
        return self.expr(d - 1) ** 2 + sp.Rational(int(self.rng.integers(1, 5)), int(self.rng.integers(1, 4)))

    def expr(self, d):
        if d <= 0 or self.rng.random() < 0.15:
            return self.X[self.rng.integers(len(self.X))] if self.rng.random() < 0.65 else self.const()
        r = self.rng.random()
        if r < 0.22:
            return sp.Add(*[self.expr(d - 1) for _ in range(self.rng.integers(2, 4))])
        if r < 0.44:
            return sp.Mul(*[self.expr(d - 1) for _ in range(self.rng.integers(2, 4))])
        if r < 0.50:
            return sp.Mul(self.const(), self.expr(d - 1))
        if r < 0.56:
            return self.expr(d - 1) ** int(self.rng.integers(2, 4))
        if r < 0.62:
            return sp.sqrt(self.positive(d))
        if r < 0.67:
            return self.positive(d) ** sp.Rational(int(self.rng.integers(-3, 6)), int(self.rng.integers(2, 5)))
        if r < 0.72:
            return self.positive(d) ** sp.Float(float(np.round(self.rng.normal() * 1.5, 2)))
        if r < 0.74:
            return self.positive(d) ** int(-self.rng.integers(1, 3))
        if r < 0.77:
            # nested powers: an even inner power under a root -- (u**2)**(1/2) is |u|, not u; the inner expression takes both signs
            inner = self.expr(d - 1) ** int(self.rng.choice([2, 2, 4]))
            return inner ** sp.Rational(1, int(self.rng.choice([2, 3, 4])))
        if r < 0.92:
            f = [sp.sin, sp.cos, sp.tan, sp.atan][self.rng.integers(4)]
            return f(self.expr(d - 1))
        if self.funcs:
            f = self.funcs[self.rng.integers(len(self.funcs))]
            return f(self.expr(d - 1))
        return sp.sin(self.expr(d - 1))


F_IMPL = {"f": (ca.sin, sp.sin), "g": (lambda x: x * x + 1, lambda x: x * x + 1), "h": (ca.cos, sp.cos)}


def s2c_agree(stc, e, names, pts, f_dict, repl, cse=False, symbols=None):
    try:
        with time_limit(20.0):
            res, syms = stc(e, f_dict=f_dict, symbols=symbols, cse=cse)
    except Exception as ex:
        return "rejected", type(ex).__name__, None
    res = ca.SX(res)
    free = sorted(str(s) for s in e.free_symbols) if hasattr(e, "free_symbols") else []
    for n in free:
        if n not in syms:
            return "bad", {"problem": "free symbol missing from the symbol table", "symbol": n}, syms
    extra = [k for k in syms if k not in free and (symbols is None)]
    if extra:
        return "bad", {"problem": "symbol table holds names that are not symbols of the expression", "extra": extra}, syms
    try:
        F = ca.Function("F", [syms[n] for n in free], [res])
    except Exception as ex:  # result depends on variables that are not in the table
        return "bad", {"problem": "result depends on variables missing from the symbol table", "exception": str(ex)[:200]}, syms
    src = e
    for fn, impl in repl.items():
        src = src.replace(fn, impl)
    n_ok = 0
    for pt in pts:
        subs = {sp.Symbol(n): float(pt[names.index(n)]) for n in free}
        try:
            ref = sym_value(src, subs)
        except Exception:
            continue
        if not math.isfinite(ref) or abs(ref) > 1e8:
            continue
        val = float(F(*[subs[sp.Symbol(n)] for n in free])) if free else float(ca.DM(res))
        n_ok += 1
        if not close(val, ref):
            rd = double_eval(src, free, [subs[sp.Symbol(n)] for n in free])
            if rd is not None and close(val, rd):
                continue  # agrees with the source evaluated in double precision
            if free and any(not close(float(F(*[subs[sp.Symbol(n)] * (1 + k) for n in free])), val) for k in (1e-13, -1e-13)):
                continue  # ill-conditioned in double precision at this point (e.g. cos of 1e7)
            if free:
                # running error analysis of the translated expression (thorough tier, cos(y*(2x+y) + g(-64)**3 - tan(y)): the
                # argument is 6.9e10 + O(1), its double value is uncertain by 1e-5 whatever the order of the additions)
                reb = rounding_error_bound(res, [syms[n] for n in free], [subs[sp.Symbol(n)] for n in free])
                if reb is not None and reb * 8 > 1e-9 * max(1.0, abs(val)):
                    continue
            return "bad", {"point": {n: subs[sp.Symbol(n)] for n in free}, "sympy_value": ref, "casadi_value": val}, syms
    return ("ok" if n_ok else "nopoints"), None, syms


def minimal_sp(stc, e, names, pts, f_dict, repl):
    cur = e
    for _ in range(50):
        found = False
        for a in getattr(cur, "args", ()):
            if not a.args and not isinstance(a, sp.Float):
                continue
            st, _, _ = s2c_agree(stc, a, names, pts, f_dict, repl)
            if st == "bad":
                cur = a
                found = True
                break
        if not found:
            break
    return cur


def sp_mechanism(e):
    if isinstance(e, sp.Float):
        return "Float"
    if isinstance(e, sp.Pow):
        ex = e.args[1]
        return "Pow_" + type(ex).__name__
    if isinstance(e, sp.Mul) and any(isinstance(a, sp.Float) for a in e.args):
        return "Float"
    if isinstance(e, sp.Add) and any(isinstance(a, sp.Float) for a in e.args):
        return "Float"
    if isinstance(e, sp.core.function.AppliedUndef):
        return "f_dict"
    return type(e).__name__


def sympy_to_casadi_dir(ctx, n_trees, depth):
    from cyecca.symbolic import sympy_to_casadi as stc
    rng = ctx.rng("c19:s2c")
    names = ["x", "y", "z"]
    X = [sp.Symbol(n) for n in names]
    seen = set()
    for it in range(n_trees):
        nf = int(rng.integers(0, 4))
        fnames = list(rng.permutation(["f", "g", "h"]))[:nf]
        funcs = [sp.Function(n) for n in fnames]
        f_dict = {n: F_IMPL[n][0] for n in fnames} if nf else None
        repl = {sp.Function(n): F_IMPL[n][1] for n in fnames}
        gen = SPGen(rng, X, funcs)
        cse = rng.random() < 0.25
        pts = [rng.normal(size=3) * rng.choice([0.5, 1.5]) for _ in range(4)]
        try:
            # building a tree already makes SymPy evaluate numeric sub-trees (roots of huge rationals can take hours: the
            # thorough tier sat in Pow.__new__ for two hours): generation and comparison of one tree are capped together
            with time_limit(90.0):
                e = gen.expr(depth)
                if not getattr(e, "free_symbols", None):
                    continue
                if cse:
                    sub = gen.expr(2)
                    e = e + sub * sp.sin(sub) + sub ** 2
                ctx.count("s2c_trees")
                st, det, _ = s2c_agree(stc, e, names, pts, f_dict, repl, cse=cse)
        except _Timeout:
            ctx.count("s2c_tree_time_cap")
            continue
        ctx.count("s2c_" + st + ("_cse" if cse else ""))
        if st in ("ok", "bad"):
            ctx.tally("sympy_to_casadi:tree")
            seen.add(str(e))
        if st == "bad":
            if "problem" in det:
                ctx.violation("sympy_to_casadi_symbols", "cse" if cse else "symbol_table", {"expr": str(e)[:300], **det})
            else:
                m = minimal_sp(stc, e, names, pts, f_dict, repl) if not cse else e
                mech = sp_mechanism(m) if not cse else ("cse" if s2c_agree(stc, e, names, pts, f_dict, repl, cse=False)[0] == "ok" else sp_mechanism(minimal_sp(stc, e, names, pts, f_dict, repl)))
                ctx.violation("sympy_to_casadi_value", mech, {"expr": str(e)[:300], "minimal_subexpr": str(m)[:200], "f_dict_keys": fnames, **det})
        if it < 3:
            ctx.sample({"direction": "sympy->casadi", "tree": str(e)[:200], "status": st, "cse": cse, "f_dict_keys": fnames})
    # matrices: converted as a whole, every element then checked like a scalar tree
    for _ in range(max(3, n_trees // 100)):
        gen = SPGen(rng, X, [])
        nr, nc = [(2, 2), (3, 2), (2, 3), (3, 1)][int(rng.integers(0, 4))]
        M = sp.Matrix(nr, nc, lambda i, j: gen.expr(2))
        try:
            res, syms = stc(M)
        except Exception:
            ctx.count("s2c_matrix_rejected")
            continue
        free = sorted(str(s_) for s_ in M.free_symbols)
        if not free:
            continue
        res = ca.SX(res)
        ctx.check("sympy_to_casadi_matrix_shape", "Matrix", tuple(res.shape) == (nr, nc), {"shape": str(res.shape), "expected": [nr, nc]})
        if tuple(res.shape) != (nr, nc):
            continue
        F = ca.Function("F", [syms[n] for n in free], [res])
        for _k in range(3):
            pt = {n: float(rng.normal()) for n in free}
            val = np.array(F(*[pt[n] for n in free])).reshape(nr, nc)
            for i in range(nr):
                for j in range(nc):
                    try:
                        ref = sym_value(M[i, j], {sp.Symbol(n): v for n, v in pt.items()})
                    except Exception:
                        continue
                    if not (math.isfinite(ref) and abs(ref) < 1e8):
                        continue
                    ctx.tally("sympy_to_casadi:matrix_element")
                    if not close(float(val[i, j]), ref):
                        pts = [np.array([pt.get(n, 0.0) for n in names])]
                        st, _, _ = s2c_agree(stc, M[i, j], names, pts, None, {})
                        mech = sp_mechanism(minimal_sp(stc, M[i, j], names, pts, None, {})) if st == "bad" else "matrix_layout"
                        ctx.violation("sympy_to_casadi_value", mech, {"expr": str(M)[:300], "element": [i, j], "point": pt, "sympy_value": ref, "casadi_value": float(val[i, j])})
    # symbols that are not plain Symbols: two Dummy("t") are different variables that print alike -- either rejected or kept apart
    d1, d2 = sp.Dummy("t"), sp.Dummy("t")
    for dname, e in (("two_dummies", sp.sin(d1) * d2 + d1 - d2), ("dummy_and_symbol", d1 * 2 + sp.Symbol("_t")), ("one_dummy", d1 ** 2 + X[0])):
        ctx.tally("sympy_to_casadi:dummy_symbols")
        try:
            with time_limit(20.0):
                res, tab = stc(e)
        except Exception:
            ctx.count("s2c_dummy_rejected")
            continue
        res = ca.SX(res)
        nvars = len(ca.symvar(res))
        want = len(e.free_symbols)
        ctx.check("sympy_to_casadi_symbol_table", "distinct_symbols_stay_distinct", nvars == want and len(tab) == want,
                  {"expr": str(e), "kind": dname, "free_symbols": want, "casadi_variables": nvars, "table": str(tab)})
    # user-supplied function maps with more than one argument (the callable receives every argument)
    k2, k3 = sp.Function("k2"), sp.Function("k3")
    multi = {
        "variadic_two": (k2(X[0] + 1, X[1] * X[2]), {"k2": lambda *a: a[0] * 2 + sum(a[1:])}, {k2: lambda a, b: a * 2 + b}),
        "strict_two": (sp.sin(k2(X[0], X[1])) + X[2], {"k2": lambda a, b: a - 3 * b}, {k2: lambda a, b: a - 3 * b}),
        "variadic_three": (k3(X[0], X[1] ** 2, X[2]) * X[0], {"k3": lambda *a: a[0] + 10 * sum(a[1:])}, {k3: lambda a, b, c: a + 10 * (b + c)}),
        "nested": (k2(k2(X[0], X[1]), X[2]), {"k2": lambda *a: a[0] * 2 + sum(a[1:])}, {k2: lambda a, b: a * 2 + b}),
    }
    mpts = [np.array([0.3, -1.2, 0.7]), np.array([-2.0, 0.5, 1.5]), np.array([1.1, 2.2, -0.4])]
    for mname, (e, fd, rp) in multi.items():
        st, det, _ = s2c_agree(stc, e, names, mpts, fd, rp)
        ctx.tally("sympy_to_casadi:multi_argument_function_map")
        ctx.count("s2c_multi_%s:%s" % (st, mname))
        if st == "bad":
            ctx.violation("sympy_to_casadi_value", "multi_argument_function_map", {"expr": str(e), "kind": mname, **det})
    # symbol table shared across conversions: same name -> same CasADi variable
    table = {}
    e1, t1 = stc(X[0] + X[1] * 2, symbols=table)
    e2, t2 = stc(sp.sin(X[0]) * X[2], symbols=table)
    same = (t1 is table) and (t2 is table) and set(table) == {"x", "y", "z"} and bool(ca.depends_on(ca.SX(e2), table["x"])) and bool(ca.depends_on(ca.SX(e1), table["x"]))
    try:
        Fb = ca.Function("F", [table["x"], table["y"], table["z"]], [ca.SX(e1) + ca.SX(e2)])
        v = float(Fb(0.3, -1.1, 2.0))
        same &= close(v, 0.3 - 2.2 + math.sin(0.3) * 2.0)
    except Exception:
        same = False
    ctx.check("sympy_to_casadi_symbol_table", "shared_table", same, {"table": str(table)})
    # ... also across conversions that use common-sub-expression elimination, whatever the user's symbols are called:
    # SymPy's cse labels its temporaries x0, x1, ... -- names a user may well have in the table already
    for uname in ("x0", "x1", "q", "x12"):
        u, a_, b_ = sp.Symbol(uname), sp.Symbol("a"), sp.Symbol("b")
        table = {}
        try:
            r1, _ = stc(u + a_, symbols=table)
            var_u = table.get(uname)
            ecse = sp.sin(a_ + b_) * (a_ + b_) + (a_ + b_) ** 2 + sp.cos((a_ + b_) ** 2)
            r2, _ = stc(ecse, symbols=table, cse=True)
            r3, _ = stc(u * 2 + b_, symbols=table)
            ok = (var_u is not None and uname in table and bool(ca.depends_on(ca.SX(r3), var_u)) and bool(ca.depends_on(ca.SX(r1), table[uname]))
                  and set(table) == {uname, "a", "b"})
            if ok:
                Fc = ca.Function("F", [table[uname], table["a"], table["b"]], [ca.SX(r1) + ca.SX(r2) + ca.SX(r3)])
                want = (0.7 + 0.3) + (math.sin(0.7) * 0.7 + 0.49 + math.cos(0.49)) + (1.4 + 0.4)
                ok = close(float(Fc(0.7, 0.3, 0.4)), want)
            det = {"user_symbol": uname, "table_after": sorted(table)}
        except Exception as ex:
            ok, det = False, {"user_symbol": uname, "exception": "%s: %s" % (type(ex).__name__, str(ex)[:200])}
        ctx.tally("sympy_to_casadi:shared_table_with_cse")
        ctx.check("sympy_to_casadi_symbol_table", "shared_table_across_cse", ok, det)
    hs = np.array([hash(k) & 0xFFFFFFFFFFFF for k in seen], dtype=np.float64)
    if len(hs):
        ctx.distinct(hs[:, None])


def run(ctx):
    n = 260 if ctx.quick else 6000
    depth = 4 if ctx.quick else 5
    if ctx.shard % 2 == 0:
        casadi_to_sympy_dir(ctx, int(n * 0.55), depth)
    else:
        sympy_to_casadi_dir(ctx, n, depth)


def finalize(m, tier):
    c = m["counters"]
    for d in ("c2s", "s2c"):
        acc = c.get(d + "_ok", 0) + c.get(d + "_ok_cse", 0) + c.get(d + "_bad", 0) + c.get(d + "_bad_cse", 0)
        if acc < 100:
            m["inconclusive"].append("%s: too few accepted trees (%d)" % (d, acc))
