"""./check <ID> <quick|thorough> [--replay file] [--shards k] : fan out shards as
subprocesses, merge what the monitors observed, classify violations against
known_findings.json, write evidence, print the verdict."""
from __future__ import annotations

import fcntl
import importlib
import json
import os
import shutil
import subprocess
import sys
import time

import numpy as np

from . import core

VERIF = core.VERIF
PY = "/venv/bin/python"


def ensure_deps():
    d = core.DEPS
    if os.path.isdir(os.path.join(d, "icontract")):
        return
    os.makedirs(os.path.join(VERIF, ".work"), exist_ok=True)
    with open(os.path.join(VERIF, ".work", ".deps.lock"), "w") as lk:
        fcntl.flock(lk, fcntl.LOCK_EX)
        if not os.path.isdir(os.path.join(d, "icontract")):
            subprocess.run(
                [PY, "-m", "pip", "install", "-q", "--no-index", "--find-links",
                 "/opt/veriftools/wheels", "--target", d, "icontract"],
                stdout=subprocess.DEVNULL, stderr=subprocess.DEVNULL, check=False)


def repo_state():
    root = core.REPO
    try:
        head = subprocess.run(["git", "-C", root, "rev-parse", "HEAD"], capture_output=True,
                              text=True, timeout=20).stdout.strip()
        diff = subprocess.run(["git", "-C", root, "diff", "HEAD"], capture_output=True,
                              timeout=60).stdout
        import hashlib
        return {"root": root, "head": head, "diff_sha": hashlib.sha256(diff).hexdigest()[:16],
                "dirty": bool(diff)}
    except Exception as e:  # not a git tree (scratch copy)
        return {"root": root, "head": "n/a", "diff_sha": "n/a", "dirty": None, "err": str(e)}


def load_known():
    p = os.path.join(VERIF, "known_findings.json")
    if not os.path.exists(p):
        return []
    with open(p) as f:
        return json.load(f).get("open", [])


def main(argv=None):
    argv = list(sys.argv[1:] if argv is None else argv)
    if len(argv) < 2:
        print("usage: ./check <ID> <quick|thorough> [--replay file]", file=sys.stderr)
        return 2
    pid = argv[0].upper()
    replay = None
    tier = None
    shards_override = None
    i = 1
    while i < len(argv):
        a = argv[i]
        if a == "--replay":
            replay = argv[i + 1]
            i += 2
        elif a == "--shards":
            shards_override = int(argv[i + 1])
            i += 2
        elif a in ("quick", "thorough"):
            tier = a
            i += 1
        else:
            i += 1
    if replay:
        with open(replay) as f:
            rp = json.load(f)
        tier = tier or rp.get("tier", "quick")
        os.environ["VERIF_SEED"] = str(rp.get("seed", 0))
    tier = tier or os.environ.get("VERIF_TIER", "quick")
    seed = int(os.environ.get("VERIF_SEED", "0") or 0)
    ensure_deps()
    t0 = time.time()
    mod = importlib.import_module("vlib.props." + pid.lower())
    nshards = mod.SHARDS[tier] if shards_override is None else shards_override
    work = os.path.join(VERIF, ".work", "%s-%s-%d" % (pid, tier, os.getpid()))
    os.makedirs(work, exist_ok=True)
    timeout = getattr(mod, "TIMEOUT", {"quick": 900, "thorough": 6 * 3600})[tier]
    procs = []
    env = dict(os.environ)
    env["PYTHONHASHSEED"] = "0"
    env["MPLBACKEND"] = "Agg"
    env["OMP_NUM_THREADS"] = "1"
    env["OPENBLAS_NUM_THREADS"] = "1"
    env["MKL_NUM_THREADS"] = "1"
    maxpar = int(os.environ.get("VERIF_JOBS", "16"))
    pending = list(range(nshards))
    running = {}
    results = {}
    failures = []
    while pending or running:
        while pending and len(running) < maxpar:
            k = pending.pop(0)
            out = os.path.join(work, "shard%d.json" % k)
            log = open(os.path.join(work, "shard%d.log" % k), "w")
            cmd = [PY, "-m", "vlib.shard", pid, tier, str(seed), str(k), str(nshards), out, work]
            if replay:
                cmd += ["--replay", os.path.abspath(replay)]
            p = subprocess.Popen(cmd, cwd=VERIF, env=env, stdout=log, stderr=subprocess.STDOUT)
            running[k] = (p, time.time(), out, log)
        time.sleep(0.05)
        for k in list(running):
            p, ts, out, log = running[k]
            rc = p.poll()
            if rc is None:
                if time.time() - ts > timeout:
                    p.kill()
                    p.wait()
                    failures.append("shard %d watchdog (%ds)" % (k, timeout))
                    log.close()
                    del running[k]
                continue
            log.close()
            del running[k]
            if rc != 0 or not os.path.exists(out):
                tail = ""
                try:
                    with open(os.path.join(work, "shard%d.log" % k)) as f:
                        tail = f.read()[-1500:]
                except Exception:
                    pass
                failures.append("shard %d exit %s: %s" % (k, rc, tail.strip().splitlines()[-1] if tail.strip() else ""))
                sys.stderr.write("---- shard %d log tail ----\n%s\n" % (k, tail))
            else:
                with open(out) as f:
                    results[k] = json.load(f)
                results[k]["_hash_file"] = out + ".hashes.npy"

    merged = merge(results)
    merged["failures"] = failures
    if hasattr(mod, "finalize"):
        try:
            mod.finalize(merged, tier)
        except Exception as e:  # a broken finalizer must not turn into "held"
            merged["inconclusive"].append("finalize raised %r" % (e,))
    rc = report(pid, tier, seed, mod, merged, time.time() - t0, nshards, replay)
    if os.environ.get("VERIF_KEEP_WORK") != "1":
        shutil.rmtree(work, ignore_errors=True)
    return rc


def merge(results):
    m = {"tallies": {}, "residuals": {}, "violations": {}, "cells": {}, "counters": {},
         "samples": [], "notes": {}, "skipped": {}, "inconclusive": [], "required": {},
         "reach": {}, "shard_wall_s": {}}
    hashes = []
    for k in sorted(results):
        r = results[k]
        for a, b in r["tallies"].items():
            m["tallies"][a] = m["tallies"].get(a, 0) + b
        for a, b in r["counters"].items():
            m["counters"][a] = m["counters"].get(a, 0) + b
        for a, b in r["skipped"].items():
            m["skipped"][a] = m["skipped"].get(a, 0) + b
        for a, b in r["reach"].items():
            m["reach"][a] = m["reach"].get(a, 0) + b
        for a, b in r["residuals"].items():
            w = b["worst"]
            w = float("inf") if isinstance(w, str) else w
            cur = m["residuals"].get(a)
            if cur is None or w > cur["worst"]:
                m["residuals"][a] = {"worst": w, "case": b.get("case")}
        for a, b in r["violations"].items():
            cur = m["violations"].setdefault(a, {"count": 0, "witnesses": [], "sub": b["sub"], "site": b["site"], "shards": []})
            cur["count"] += b["count"]
            cur["shards"].append(k)
            for w in b["witnesses"]:
                if len(cur["witnesses"]) < core.MAX_WITNESS_PER_KEY:
                    cur["witnesses"].append(w)
        for a, b in r["cells"].items():
            m["cells"].setdefault(a, set()).update(b)
        for s in r["samples"]:
            if len(m["samples"]) < 8:
                m["samples"].append(s)
        m["notes"].update({("%s" % a): b for a, b in r["notes"].items()})
        m["inconclusive"] += ["shard %d: %s" % (k, x) for x in r["inconclusive"]]
        m["required"].update(r["required"])
        m["shard_wall_s"][str(k)] = round(r["wall_s"], 1)
        try:
            hashes.append(np.load(r["_hash_file"]))
        except Exception:
            pass
    m["distinct"] = int(len(np.unique(np.concatenate(hashes)))) if hashes else 0
    m["cells"] = {k: sorted(v) for k, v in m["cells"].items()}
    return m


def match_known(known, pid, key):
    import fnmatch
    for e in known:
        if e.get("property") == pid and fnmatch.fnmatchcase(key, e.get("key", "")):
            return e
    return None


def report(pid, tier, seed, mod, m, wall, nshards, replay):
    known = load_known()
    unknown, hit = [], []
    for key, v in sorted(m["violations"].items()):
        e = match_known(known, pid, key)
        if e is None:
            unknown.append((key, v))
        else:
            hit.append((key, v, e))
    inconclusive = list(m["inconclusive"]) + list(m.get("failures", []))
    # required observations
    for name, why in m["required"].items():
        n = m["tallies"].get(name, 0) + m["counters"].get(name, 0) + m["reach"].get(name, 0)
        if name.startswith("cell:"):
            n = len(m["cells"].get(name[5:], []))
        if n == 0:
            inconclusive.append("required observation never made: %s %s" % (name, why))
    # reach counters: the anchored library functions the workload is supposed to drive
    for req in getattr(mod, "REQUIRED_REACH", []):
        alts = (req,) if isinstance(req, str) else tuple(req)
        if not any(v > 0 and any(k.endswith("::" + a) for a in alts) for k, v in m["reach"].items()):
            if os.environ.get("VERIF_NO_REACH") != "1":
                inconclusive.append("library function never reached by the workload: %s" % "|".join(alts))
    evaluations = int(sum(m["tallies"].values()))
    if evaluations == 0 and not unknown:
        inconclusive.append("no evaluations")

    # evidence
    os.makedirs(os.path.join(VERIF, "evidence"), exist_ok=True)
    samples = list(m["samples"])
    # include the worst case of the worst sub-check as a sample
    worst = sorted(((v["worst"], k) for k, v in m["residuals"].items()
                    if isinstance(v["worst"], (int, float))), reverse=True)[:2]
    for w, k in worst:
        samples.append({"worst_residual_of": k, "residual": w, "case": m["residuals"][k].get("case")})
    if not samples:
        samples = [{"note": "no sample recorded"}]
    cov = {
        "evaluations": max(evaluations, 0),
        "distinct_nontrivial": int(m["distinct"]),
        "rule": getattr(mod, "RULE", ""),
        "samples": samples,
        "per_subcheck_evaluations": m["tallies"],
        "worst_residuals": {k: v["worst"] for k, v in m["residuals"].items()},
        "branch_cells_seen": {k: {"distinct": len(v), "signatures": v[:40]} for k, v in m["cells"].items()},
        "monitor_counters": m["counters"],
        "skipped_domain": m["skipped"],
        "library_functions_reached": {k: v for k, v in sorted(m["reach"].items()) if v},
        "known_findings_hit": [{"key": k, "count": v["count"], "what": e.get("what", "")} for k, v, e in hit],
        "unlisted_violations": [{"key": k, "count": v["count"]} for k, v in unknown],
        "inconclusive_reasons": inconclusive,
        "shards": nshards,
        "shard_wall_s": m["shard_wall_s"],
        "repo": repo_state(),
        "notes": m["notes"],
        "verdict": "violated" if unknown else ("inconclusive" if inconclusive else "held"),
    }
    ev = {
        "property_id": pid,
        "tier": tier,
        "seed": int(seed),
        "level": "exploration",
        "coverage": core.jsonable(cov),
        "assumptions": getattr(mod, "ASSUMPTIONS", []),
        "wall_s": round(wall, 2),
        "violations": int(sum(v["count"] for _, v in unknown)),
    }
    override = os.path.realpath(core.REPO) != "/repo"
    if override:
        # break-it experiments against a scratch copy never touch the committed evidence / replays
        os.makedirs(os.path.join(VERIF, ".work", "override", "replays"), exist_ok=True)
        evp = os.path.join(VERIF, ".work", "override", pid + ".json")
        with open(evp, "w") as f:
            json.dump(ev, f, indent=1)
    elif not replay:
        evp = os.path.join(VERIF, "evidence", pid + ".json")
        with open(evp + ".tmp", "w") as f:
            json.dump(ev, f, indent=1)
        os.replace(evp + ".tmp", evp)

    for key, v, e in hit:
        print("KNOWN-FINDING: property=%s %s [%s, %d observation(s)]" % (pid, e.get("what", key), key, v["count"]))
    if unknown:
        os.makedirs(os.path.join(VERIF, "replays"), exist_ok=True)
        for key, v in unknown:
            safe = "".join(c if c.isalnum() or c in "-_." else "_" for c in key)[:100]
            rp = os.path.join(VERIF, ".work", "override", "replays") if override else os.path.join(VERIF, "replays")
            rp = os.path.join(rp, "%s-%s.json" % (pid, safe))
            with open(rp, "w") as f:
                json.dump({"property": pid, "key": key, "sub": v["sub"], "site": v["site"],
                           "count": v["count"], "witnesses": v["witnesses"], "tier": tier,
                           "seed": seed, "shards": v.get("shards", []), "nshards": nshards}, f, indent=1)
            w0 = v["witnesses"][0] if v["witnesses"] else {}
            brief = json.dumps(w0)[:300]
            print("VIOLATION property=%s replay=%s" % (pid, rp))
            print("  key=%s count=%d witness=%s" % (key, v["count"], brief))
        return 1
    if inconclusive:
        print("INCONCLUSIVE property=%s reason=%s" % (pid, "; ".join(inconclusive)[:600]))
        return 2
    print("HELD property=%s tier=%s seed=%d evaluations=%d distinct_nontrivial=%d wall=%.1fs" % (
        pid, tier, seed, evaluations, m["distinct"], wall))
    return 0


if __name__ == "__main__":
    sys.exit(main())
