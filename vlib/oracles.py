"""Reference oracles, written independently of cyecca (numpy / scipy / mpmath only).
All batch functions take arrays with a leading sample dimension N."""
from __future__ import annotations

import numpy as np
import scipy.linalg as sl

try:
    import mpmath as mp
except Exception:  # pragma: no cover
    mp = None


# ---------------------------------------------------------------- so(3) / SO(3), batch
def hat3(w):
    w = np.asarray(w, dtype=float)
    N = w.shape[:-1]
    M = np.zeros(N + (3, 3))
    M[..., 0, 1] = -w[..., 2]
    M[..., 0, 2] = w[..., 1]
    M[..., 1, 0] = w[..., 2]
    M[..., 1, 2] = -w[..., 0]
    M[..., 2, 0] = -w[..., 1]
    M[..., 2, 1] = w[..., 0]
    return M


def vee3(M):
    M = np.asarray(M)
    return np.stack([(M[..., 2, 1] - M[..., 1, 2]) / 2, (M[..., 0, 2] - M[..., 2, 0]) / 2,
                     (M[..., 1, 0] - M[..., 0, 1]) / 2], axis=-1)


def _sinc_terms(th):
    """A = sin th/th, B = (1-cos th)/th^2, C = (th - sin th)/th^3, accurate for all th"""
    th = np.asarray(th, dtype=float)
    small = th < 1e-2
    ths = np.where(small, 1.0, th)
    t2 = th * th
    A = np.where(small, 1 - t2 / 6 + t2 * t2 / 120 - t2**3 / 5040, np.sin(ths) / ths)
    B = np.where(small, 0.5 - t2 / 24 + t2 * t2 / 720 - t2**3 / 40320,
                 2 * np.sin(ths / 2) ** 2 / (ths * ths))
    C = np.where(small, 1 / 6 - t2 / 120 + t2 * t2 / 5040 - t2**3 / 362880,
                 (ths - np.sin(ths)) / (ths**3))
    return A, B, C


def rodrigues(w):
    """exp([w]x) for w (..., 3)"""
    w = np.asarray(w, dtype=float)
    th = np.linalg.norm(w, axis=-1)
    A, B, _ = _sinc_terms(th)
    W = hat3(w)
    I = np.eye(3)
    return I + A[..., None, None] * W + B[..., None, None] * (W @ W)


def so3_left_jac(w):
    w = np.asarray(w, dtype=float)
    th = np.linalg.norm(w, axis=-1)
    _, B, C = _sinc_terms(th)
    W = hat3(w)
    return np.eye(3) + B[..., None, None] * W + C[..., None, None] * (W @ W)


def quat_to_R(q):
    q = np.asarray(q, dtype=float)
    a, b, c, d = q[..., 0], q[..., 1], q[..., 2], q[..., 3]
    R = np.empty(q.shape[:-1] + (3, 3))
    R[..., 0, 0] = a * a + b * b - c * c - d * d
    R[..., 0, 1] = 2 * (b * c - a * d)
    R[..., 0, 2] = 2 * (b * d + a * c)
    R[..., 1, 0] = 2 * (b * c + a * d)
    R[..., 1, 1] = a * a - b * b + c * c - d * d
    R[..., 1, 2] = 2 * (c * d - a * b)
    R[..., 2, 0] = 2 * (b * d - a * c)
    R[..., 2, 1] = 2 * (c * d + a * b)
    R[..., 2, 2] = a * a - b * b - c * c + d * d
    return R


def quat_mul(q, p):
    q = np.asarray(q, dtype=float)
    p = np.asarray(p, dtype=float)
    w1, v1 = q[..., :1], q[..., 1:]
    w2, v2 = p[..., :1], p[..., 1:]
    w = w1 * w2 - np.sum(v1 * v2, axis=-1, keepdims=True)
    v = w1 * v2 + w2 * v1 + np.cross(v1, v2)
    return np.concatenate([w, v], axis=-1)


def axang_to_quat(axis, th):
    axis = np.asarray(axis, dtype=float)
    th = np.asarray(th, dtype=float)
    return np.concatenate([np.cos(th / 2)[..., None], axis * np.sin(th / 2)[..., None]], axis=-1)


def mrp_to_R(r):
    """MRP r = axis*tan(th/4) (either set) -> rotation matrix, via the quaternion"""
    r = np.asarray(r, dtype=float)
    n2 = np.sum(r * r, axis=-1)
    q = np.concatenate([((1 - n2) / (1 + n2))[..., None], 2 * r / (1 + n2)[..., None]], axis=-1)
    return quat_to_R(q)


def axang_to_mrp(axis, th):
    return np.asarray(axis) * np.tan(np.asarray(th) / 4)[..., None]


def Rx(a):
    a = np.asarray(a, dtype=float)
    R = np.zeros(a.shape + (3, 3))
    R[..., 0, 0] = 1
    R[..., 1, 1] = np.cos(a)
    R[..., 1, 2] = -np.sin(a)
    R[..., 2, 1] = np.sin(a)
    R[..., 2, 2] = np.cos(a)
    return R


def Ry(a):
    a = np.asarray(a, dtype=float)
    R = np.zeros(a.shape + (3, 3))
    R[..., 1, 1] = 1
    R[..., 0, 0] = np.cos(a)
    R[..., 0, 2] = np.sin(a)
    R[..., 2, 0] = -np.sin(a)
    R[..., 2, 2] = np.cos(a)
    return R


def Rz(a):
    a = np.asarray(a, dtype=float)
    R = np.zeros(a.shape + (3, 3))
    R[..., 2, 2] = 1
    R[..., 0, 0] = np.cos(a)
    R[..., 0, 1] = -np.sin(a)
    R[..., 1, 0] = np.sin(a)
    R[..., 1, 1] = np.cos(a)
    return R


def euler321_to_R(e):
    """body-fixed 3-2-1: (yaw psi, pitch theta, roll phi) -> Rz(psi) Ry(theta) Rx(phi)"""
    e = np.asarray(e, dtype=float)
    return Rz(e[..., 0]) @ Ry(e[..., 1]) @ Rx(e[..., 2])


def R_to_euler321(R):
    R = np.asarray(R, dtype=float)
    th = np.arcsin(np.clip(-R[..., 2, 0], -1, 1))
    psi = np.arctan2(R[..., 1, 0], R[..., 0, 0])
    phi = np.arctan2(R[..., 2, 1], R[..., 2, 2])
    return np.stack([psi, th, phi], axis=-1)


def dcm_param(R):
    """cyecca stores a DCM as the column-major vectorisation of R"""
    R = np.asarray(R, dtype=float)
    return np.swapaxes(R, -1, -2).reshape(R.shape[:-2] + (9,))


def dcm_to_R(p):
    p = np.asarray(p, dtype=float)
    return np.swapaxes(p.reshape(p.shape[:-1] + (3, 3)), -1, -2)


def R_to_quat(R):
    """robust matrix -> unit quaternion (largest-component method), q0 >= 0 not enforced"""
    R = np.asarray(R, dtype=float)
    sh = R.shape[:-2]
    R2 = R.reshape((-1, 3, 3))
    K = np.empty((R2.shape[0], 4))
    t = R2[:, 0, 0] + R2[:, 1, 1] + R2[:, 2, 2]
    K[:, 0] = 1 + t
    K[:, 1] = 1 + 2 * R2[:, 0, 0] - t
    K[:, 2] = 1 + 2 * R2[:, 1, 1] - t
    K[:, 3] = 1 + 2 * R2[:, 2, 2] - t
    i = np.argmax(K, axis=1)
    q = np.empty((R2.shape[0], 4))
    for k in range(4):
        m = i == k
        if not m.any():
            continue
        Rm = R2[m]
        s = 2 * np.sqrt(np.maximum(K[m, k], 1e-300))
        if k == 0:
            q[m] = np.stack([s / 4, (Rm[:, 2, 1] - Rm[:, 1, 2]) / s, (Rm[:, 0, 2] - Rm[:, 2, 0]) / s,
                             (Rm[:, 1, 0] - Rm[:, 0, 1]) / s], axis=1)
        elif k == 1:
            q[m] = np.stack([(Rm[:, 2, 1] - Rm[:, 1, 2]) / s, s / 4, (Rm[:, 0, 1] + Rm[:, 1, 0]) / s,
                             (Rm[:, 0, 2] + Rm[:, 2, 0]) / s], axis=1)
        elif k == 2:
            q[m] = np.stack([(Rm[:, 0, 2] - Rm[:, 2, 0]) / s, (Rm[:, 0, 1] + Rm[:, 1, 0]) / s, s / 4,
                             (Rm[:, 1, 2] + Rm[:, 2, 1]) / s], axis=1)
        else:
            q[m] = np.stack([(Rm[:, 1, 0] - Rm[:, 0, 1]) / s, (Rm[:, 0, 2] + Rm[:, 2, 0]) / s,
                             (Rm[:, 1, 2] + Rm[:, 2, 1]) / s, s / 4], axis=1)
    q /= np.linalg.norm(q, axis=1, keepdims=True)
    return q.reshape(sh + (4,))


def rot_angle(R):
    """rotation angle in [0, pi], accurate near 0 and pi"""
    R = np.asarray(R, dtype=float)
    s = np.linalg.norm(vee3(R), axis=-1)  # sin(th)
    c = (R[..., 0, 0] + R[..., 1, 1] + R[..., 2, 2] - 1) / 2
    return np.arctan2(s, c)


def log_R(R):
    """principal rotation vector (angle <= pi) of R; ill-conditioned within ~1e-6 of pi"""
    R = np.asarray(R, dtype=float)
    q = R_to_quat(R)
    q = np.where(q[..., :1] < 0, -q, q)
    vn = np.linalg.norm(q[..., 1:], axis=-1)
    th = 2 * np.arctan2(vn, q[..., 0])
    small = vn < 1e-8
    k = np.where(small, 2.0, th / np.where(small, 1.0, vn))
    return q[..., 1:] * k[..., None]


def is_rotation(R, tol=1e-9):
    R = np.asarray(R, dtype=float)
    e = np.abs(np.swapaxes(R, -1, -2) @ R - np.eye(3)).max(axis=(-1, -2))
    d = np.abs(np.linalg.det(R) - 1)
    return np.maximum(e, d)


# ---------------------------------------------------------------- generic matrix tools
def expm_batch(M):
    M = np.asarray(M, dtype=float)
    out = np.empty_like(M)
    for i in range(M.shape[0]):
        out[i] = sl.expm(M[i])
    return out


def random_axes(rng, N):
    v = rng.normal(size=(N, 3))
    v /= np.linalg.norm(v, axis=1, keepdims=True)
    return v


def loguniform(rng, lo, hi, size):
    return np.exp(rng.uniform(np.log(lo), np.log(hi), size=size))


def signed_loguniform(rng, lo, hi, size):
    return loguniform(rng, lo, hi, size) * rng.choice([-1.0, 1.0], size=size)


# ---------------------------------------------------------------- mpmath (high precision)
def mp_hat3(w):
    return mp.matrix([[0, -w[2], w[1]], [w[2], 0, -w[0]], [-w[1], w[0], 0]])


def mp_expm_series(M, dps=50):
    """matrix exponential by scaling-and-squaring + Taylor, in mpmath"""
    n = M.rows
    nrm = max(sum(abs(M[i, j]) for j in range(n)) for i in range(n))
    s = 0
    while nrm > mp.mpf(1) / 2:
        nrm /= 2
        s += 1
    A = M / (mp.mpf(2) ** s)
    E = mp.eye(n)
    T = mp.eye(n)
    k = 1
    eps = mp.mpf(10) ** (-(mp.mp.dps + 5))
    while True:
        T = T * A / k
        E = E + T
        k += 1
        if max(abs(T[i, j]) for i in range(n) for j in range(n)) < eps or k > 400:
            break
    for _ in range(s):
        E = E * E
    return E


def mp_to_np(M):
    return np.array([[float(M[i, j]) for j in range(M.cols)] for i in range(M.rows)])


def mp_jac_series(adm, sign=+1, dps=50):
    """sum_k (sign*ad)^k/(k+1)!  (left Jacobian for sign=+1, right for -1)"""
    n = adm.rows
    A = adm * sign
    J = mp.eye(n)
    T = mp.eye(n)
    k = 1
    eps = mp.mpf(10) ** (-(mp.mp.dps + 5))
    while True:
        T = T * A / (k + 1)
        J = J + T
        k += 1
        if max(abs(T[i, j]) for i in range(n) for j in range(n)) < eps or k > 600:
            break
    return J
