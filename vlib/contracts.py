"""icontract post-conditions attached at class level on the real group methods, so they see
every numeric call including the nested ones the library makes itself.  A contract only
evaluates when all arguments are numeric constants; symbolic calls are counted as skipped.
Conditions are named functions with explicit error= (icontract 2.7.3 idiom)."""
from __future__ import annotations

import numpy as np
import scipy.linalg as sl

import casadi as ca
import icontract


class PostBroken(Exception):
    pass


STATS = {}
VIOL = []  # (name, class, detail)
_installed = []


def _stat(name, what):
    d = STATS.setdefault(name, {"evaluated": 0, "skipped_symbolic": 0, "skipped_domain": 0})
    d[what] += 1


def num(x):
    """numeric value of an SX/DM if it is constant, else None"""
    try:
        x = ca.SX(x)
        if not x.is_constant():
            return None
        return np.array(ca.DM(x).full())
    except Exception:
        return None


def _M(group, el):
    return num(group.to_Matrix(el))


def _euler_band(group, M):
    from cyecca.lie.group_so3 import SO3EulerLieGroup
    g = getattr(group, "SO3", group)
    if isinstance(g, SO3EulerLieGroup):
        R = M[:3, :3]
        return abs(abs(np.arcsin(np.clip(-R[2, 0], -1, 1))) - np.pi / 2) < 2.5e-3
    return False


def _is_mrp(group):
    from cyecca.lie.group_so3 import SO3MrpLieGroup
    return isinstance(getattr(group, "SO3", group), SO3MrpLieGroup)


def _angle(M):
    R = M[:3, :3] if M.shape[0] >= 3 else None
    if R is None:
        return 0.0
    s = np.linalg.norm([R[2, 1] - R[1, 2], R[0, 2] - R[2, 0], R[1, 0] - R[0, 1]]) / 2
    c = (np.trace(R) - 1) / 2
    return float(np.arctan2(s, c))


def _tol(*Ms):
    return 1e-9 * max(1.0, *[float(np.abs(m).max()) for m in Ms])


def _record(name, self, ok, detail):
    if not ok:
        VIOL.append((name, type(self).__name__, detail))
    return True  # record-and-continue: never abort the observed computation


def product_is_matrix_product(self, left, right, result):
    L, R, P = _M(self, left), _M(self, right), _M(self, result)
    if L is None or R is None or P is None:
        _stat("product", "skipped_symbolic")
        return True
    from cyecca.lie.direct_product import LieGroupDirectProduct
    if isinstance(self, LieGroupDirectProduct):
        pass
    E = L @ R
    if _euler_band(self, E) or not np.all(np.isfinite(E)):
        _stat("product", "skipped_domain")
        return True
    if _is_mrp(self) and _angle(E) > np.pi - 0.3 and not np.all(np.isfinite(P)):
        _stat("product", "skipped_domain")
        return True
    if _is_mrp(self):
        # 360-degree composite singularity of the MRP product formula
        a = num(left.param)[-3:, 0]
        b = num(right.param)[-3:, 0]
        na, nb = a @ a, b @ b
        if abs(1 + na * nb - 2 * a @ b) / ((1 + na) * (1 + nb)) < 0.05:
            _stat("product", "skipped_domain")
            return True
    _stat("product", "evaluated")
    err = float(np.abs(P - E).max()) if np.all(np.isfinite(P)) else float("inf")
    return _record("product", self, err <= _tol(L, R), {"err": err, "left": num(left.param).ravel().tolist(),
                                                         "right": num(right.param).ravel().tolist()})


def inverse_is_matrix_inverse(self, arg, result):
    A, B = _M(self, arg), _M(self, result)
    if A is None or B is None:
        _stat("inverse", "skipped_symbolic")
        return True
    if _euler_band(self, A.T if A.shape == (3, 3) else np.linalg.inv(A)):
        _stat("inverse", "skipped_domain")
        return True
    _stat("inverse", "evaluated")
    err = float(np.abs(A @ B - np.eye(A.shape[0])).max()) if np.all(np.isfinite(B)) else float("inf")
    return _record("inverse", self, err <= _tol(A, B), {"err": err, "arg": num(arg.param).ravel().tolist()})


def identity_is_identity_matrix(self, result):
    A = _M(self, result)
    if A is None:
        _stat("identity", "skipped_symbolic")
        return True
    _stat("identity", "evaluated")
    err = float(np.abs(A - np.eye(A.shape[0])).max())
    return _record("identity", self, err <= 1e-12, {"err": err})


def exp_is_matrix_exponential(self, arg, result):
    X = num(arg.algebra.to_Matrix(arg))
    P = _M(self, result)
    if X is None or P is None:
        _stat("exp", "skipped_symbolic")
        return True
    E = sl.expm(X)
    if _euler_band(self, E):
        _stat("exp", "skipped_domain")
        return True
    _stat("exp", "evaluated")
    err = float(np.abs(P - E).max()) if np.all(np.isfinite(P)) else float("inf")
    return _record("exp", self, err <= _tol(E, X), {"err": err, "arg": num(arg.param).ravel().tolist()})


def log_inverts_exp(self, arg, result):
    A = _M(self, arg)
    x = num(result.param)
    if A is None or x is None:
        _stat("log", "skipped_symbolic")
        return True
    if A.shape[0] >= 3 and _angle(A) > np.pi - 0.05:
        _stat("log", "skipped_domain")
        return True
    X = num(result.algebra.to_Matrix(result))
    _stat("log", "evaluated")
    if not np.all(np.isfinite(X)):
        return _record("log", self, False, {"err": "non-finite", "arg": num(arg.param).ravel().tolist()})
    E = sl.expm(X)
    err = float(np.abs(E - A).max())
    return _record("log", self, err <= _tol(A, X), {"err": err, "arg": num(arg.param).ravel().tolist()})


CONTRACTS = {
    "product": product_is_matrix_product,
    "inverse": inverse_is_matrix_inverse,
    "identity": identity_is_identity_matrix,
    "exp": exp_is_matrix_exponential,
    "log": log_inverts_exp,
}


def group_classes():
    import cyecca.lie as L  # noqa
    from cyecca.lie.base import LieGroup
    import cyecca.lie.direct_product  # noqa

    out = []
    stack = [LieGroup]
    while stack:
        c = stack.pop()
        for s in c.__subclasses__():
            if s not in out:
                out.append(s)
                stack.append(s)
    return out


def install():
    """wrap the real methods of every LieGroup subclass (where the class defines them)"""
    if _installed:
        return len(_installed)
    for cls in group_classes():
        for name, cond in CONTRACTS.items():
            if name in cls.__dict__:
                orig = cls.__dict__[name]
                wrapped = icontract.ensure(cond, error=PostBroken)(orig)
                setattr(cls, name, wrapped)
                _installed.append((cls, name, orig))
    return len(_installed)


def uninstall():
    while _installed:
        cls, name, orig = _installed.pop()
        setattr(cls, name, orig)


def drain():
    v = list(VIOL)
    VIOL.clear()
    return v
