"""Evaluate expressions that were built through the library's real Python code path on many
numeric inputs, and observe which branch cell (truth values of the comparison nodes inside
the expression graph) each evaluation took."""
from __future__ import annotations

import casadi as ca
import numpy as np

CMP = {ca.OP_LT: "<", ca.OP_LE: "<=", ca.OP_EQ: "==", ca.OP_NE: "!="}


def find_cmp(exprs, limit=64):
    """all comparison nodes reachable from exprs (deduplicated, deterministic order)"""
    seen = set()
    out = []
    stack = []
    for ex in exprs:
        ex = ca.SX(ex)
        stack.extend(reversed(ex.nonzeros()))
    while stack:
        e = stack.pop()
        h = e.element_hash()
        if h in seen:
            continue
        seen.add(h)
        if e.is_symbolic() or e.is_constant():
            continue
        if e.op() in CMP:
            out.append(e)
        for i in range(e.n_dep()):
            stack.append(e.dep(i))
    out = out[:limit]
    return out, len(seen)


class Ev:
    """numeric batch evaluator of outputs(inputs) with branch-cell signatures"""

    def __init__(self, name, inputs, outputs, probe=True):
        self.inputs = [ca.SX(i) for i in inputs]
        self.outputs = [ca.SX(o) for o in outputs]
        self.shapes = [o.shape for o in self.outputs]
        self.cmps = []
        self.n_nodes = 0
        outs = [ca.densify(o) for o in self.outputs]
        if probe:
            self.cmps, self.n_nodes = find_cmp(self.outputs)
        if self.cmps:
            outs.append(ca.vertcat(*self.cmps))
        self.pred_text = [str(c)[:120] for c in self.cmps]
        self.F = ca.Function(name, self.inputs, outs)
        self._maps = {}

    def _map(self, n):
        f = self._maps.get(n)
        if f is None:
            if len(self._maps) > 4:
                self._maps.clear()
            f = self.F.map(n)
            self._maps[n] = f
        return f

    def __call__(self, *arrays, chunk=4000):
        """arrays: one (N, n_i) (or (N,) for scalars) array per input -> (outs, preds)
        outs[j]: (N, r, c);  preds: (N, k) booleans (k may be 0)"""
        arrs = []
        N = None
        for a, s in zip(arrays, self.inputs):
            a = np.asarray(a, dtype=np.float64)
            if a.ndim == 1:
                a = a[:, None]
            if a.ndim == 3:  # matrix input (N, r, c): column-major flatten
                a = a.transpose(0, 2, 1).reshape(a.shape[0], -1)
            assert a.shape[1] == s.numel(), (a.shape, s.shape)
            N = a.shape[0]
            arrs.append(a)
        res = [np.empty((N,) + sh) for sh in self.shapes]
        preds = np.zeros((N, len(self.cmps)), dtype=bool)
        for st in range(0, N, chunk):
            en = min(N, st + chunk)
            n = en - st
            f = self._map(n)
            ins = []
            for a, s in zip(arrs, self.inputs):
                r, c = s.shape
                blk = a[st:en]  # (n, r*c) column-major per sample
                # mapped input: (r, c*n), sample j occupies columns j*c..(j+1)*c
                m = blk.reshape(n, c, r).transpose(2, 0, 1).reshape(r, n * c)
                ins.append(ca.DM(m))
            o = f(*ins)
            if not isinstance(o, (list, tuple)):
                o = [o]
            for j, sh in enumerate(self.shapes):
                r, c = sh
                res[j][st:en] = o[j].full().reshape(r, n, c).transpose(1, 0, 2)
            if self.cmps:
                preds[st:en] = o[-1].full().T != 0
        return res, preds


def bisect_predicate(ev, a, b, pred_index, iters=80):
    """a, b: two input tuples (each a list of 1-D arrays) on which predicate pred_index
    differs.  Bisect on the segment to (nearly) adjacent doubles.  Returns (lo, hi)."""
    def val(p):
        _, pr = ev(*[np.asarray(x)[None, :] for x in p])
        return bool(pr[0, pred_index])

    va = val(a)
    for _ in range(iters):
        mid = [(x + y) / 2 for x, y in zip(a, b)]
        if all(np.array_equal(m, x) for m, x in zip(mid, a)) or all(
                np.array_equal(m, y) for m, y in zip(mid, b)):
            break
        if val(mid) == va:
            a = mid
        else:
            b = mid
    return a, b
