import json,sys
e=json.load(open('/verif/evidence/%s.json'%sys.argv[1]))
c=e['coverage']
print('eval',c['evaluations'],'distinct',c['distinct_nontrivial'],'wall',e['wall_s'],'verdict',c['verdict'])
n=int(sys.argv[2]) if len(sys.argv)>2 else 10
for k,v in sorted(c['worst_residuals'].items(), key=lambda kv:-kv[1] if isinstance(kv[1],(int,float)) else -1e99)[:n]: print('  ',k,v)
print('counters',{k:v for k,v in c['monitor_counters'].items() if not k.startswith('not_offered')})
print('skipped',{k:v for k,v in c['skipped_domain'].items() if v})
print('cells',{k:v['distinct'] for k,v in c['branch_cells_seen'].items()})
print('shard walls',c['shard_wall_s'])
print('inconclusive',c['inconclusive_reasons'])
