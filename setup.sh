#!/bin/bash
# offline setup: install icontract beside the repo's interpreter into git-ignored .deps
HERE="$(cd "$(dirname "${BASH_SOURCE[0]}")" && pwd)"
cd "$HERE"
mkdir -p .deps .work evidence replays
if [ ! -d .deps/icontract ]; then
  /venv/bin/pip install -q --no-index --find-links /opt/veriftools/wheels --target .deps icontract >/dev/null 2>&1 || { echo "icontract install failed" >&2; exit 1; }
fi
/venv/bin/python -c "import sys; sys.path.insert(0,'.deps'); import icontract, casadi, numpy, scipy, mpmath, sympy, simpy; print('setup ok')"
