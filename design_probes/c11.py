import numpy as np, casadi as ca, io, contextlib
with contextlib.redirect_stdout(io.StringIO()):
    from cyecca.estimate.attitude import algorithms
    from cyecca.lie import *
eqs=algorithms.eqs()
mrp=eqs['mrp']; sim=eqs['sim']
for k,v in mrp.items(): print(v)
for k,v in sim.items(): print(v)
rng=np.random.default_rng(8)
def D(x): return np.array(ca.DM(x))
def unit(n): v=rng.normal(size=n); return v/np.linalg.norm(v)
# initialize exactness using independent measurement model: g_b = R^T (0,0,-g), B_b = R^T B_n
bad=0; worst=0; codes={}
for k in range(2000):
    ang=rng.uniform(0,np.pi); r=unit(3)*np.tan(ang/4)
    R=D(SO3Mrp.elem(ca.DM(r)).to_Matrix())
    decl=rng.uniform(-0.5,0.5); incl=rng.uniform(-1.2,1.2); 
    Bn=np.array([np.cos(incl)*np.cos(decl),np.cos(incl)*np.sin(decl),np.sin(incl)])*0.5
    g_b=R.T@np.array([0,0,-9.8]); B_b=R.T@Bn
    x0,ret=mrp['initialize'](g_b,B_b,decl)
    ret=int(ret); codes[ret]=codes.get(ret,0)+1
    x0=D(x0).ravel()
    if ret==0:
        R0=D(SO3Mrp.elem(ca.DM(x0[:3])).to_Matrix())
        e=np.abs(R0-R).max(); worst=max(worst,e)
        if not np.all(np.isfinite(x0)): bad+=1
    else:
        if not np.all(np.isfinite(x0)): bad+=1
print('init worst',worst,'codes',codes,'nan',bad)
# predict
def randW():
    W=np.tril(rng.normal(size=(6,6))*0.02); W[np.diag_indices(6)]=rng.uniform(0.01,0.3,size=6); return W
worst_norm=0; worstacc=0; nanc=0; upper=0
for k in range(2000):
    ang=rng.uniform(0,np.pi); r=unit(3)*np.tan(ang/4)*rng.choice([1,0.999999,1.0])
    if k%5==0: r=unit(3)  # on boundary
    b=rng.normal(size=3)*0.05; x=np.r_[r,b]; W=randW()
    om=unit(3)*rng.uniform(0,30); dt=rng.uniform(1e-3,2e-2)
    x1,W1=mrp['predict'](0,x,W,om,1e-3,1e-5,dt)
    x1=D(x1).ravel(); W1=D(W1)
    if not (np.all(np.isfinite(x1)) and np.all(np.isfinite(W1))): nanc+=1; continue
    worst_norm=max(worst_norm,np.linalg.norm(x1[:3]))
    upper=max(upper,np.abs(np.triu(W1,1)).max())
    # exact: R1 = R0 exp([ (om-b) dt ])
    from scipy.linalg import expm
    R0=D(SO3Mrp.elem(ca.DM(r)).to_Matrix()); w=(om-b)*dt
    Wm=np.array([[0,-w[2],w[1]],[w[2],0,-w[0]],[-w[1],w[0],0]])
    R1=D(SO3Mrp.elem(ca.DM(x1[:3])).to_Matrix())
    e=np.abs(R1-R0@expm(Wm)).max()/max(np.linalg.norm(w)**5,1e-12)
    worstacc=max(worstacc,e)
print('predict max norm',worst_norm,'nan',nanc,'upper',upper,'err/theta^5',worstacc)
# corrections
stats={'accel':{}, 'mag':{}}; viol=0; incr=0; nanc=0; maxeig=-1
for k in range(3000):
    ang=rng.uniform(0,np.pi); r=unit(3)*np.tan(ang/4); b=rng.normal(size=3)*0.05; x=np.r_[r,b]; W=randW()
    if k%3==0: W=np.diag([0.01,0.01,0.05,0.01,0.01,0.01])+np.tril(rng.normal(size=(6,6))*0.002,-1)
    R=D(SO3Mrp.elem(ca.DM(r)).to_Matrix())
    # perturbed truth
    d=rng.normal(size=3)*0.05
    Rt=R@expm(np.array([[0,-d[2],d[1]],[d[2],0,-d[0]],[-d[1],d[0],0]]))
    scale=rng.choice([1,1,1,0.5,2,0,1.05])
    y=Rt.T@np.array([0,0,-9.8])*scale+rng.normal(size=3)*0.03
    out=mrp['correct_accel'](x,W,y,9.8,rng.normal(size=3),35e-3,0,9.2)
    xa,Wa,beta,ra,rs,ret=[D(o) for o in out]; ret=int(ret[0,0]); stats['accel'][ret]=stats['accel'].get(ret,0)+1
    if ret!=0:
        if not (np.array_equal(xa.ravel(),x) and np.array_equal(Wa,W)): viol+=1
    else:
        if not (np.all(np.isfinite(xa)) and np.all(np.isfinite(Wa))): nanc+=1
        else:
            dP=Wa@Wa.T-W@W.T; maxeig=max(maxeig,np.linalg.eigvalsh(dP).max())
    incl=rng.uniform(-1.3,1.3)
    Bn=np.array([np.cos(incl),0,np.sin(incl)])*0.5
    y=Rt.T@Bn+rng.normal(size=3)*2.5e-3
    out=mrp['correct_mag'](x,W,y,0,2.5e-3,6.6)
    xm,Wm_,beta,rm,rs,ret=[D(o) for o in out]; ret=int(ret[0,0]); stats['mag'][ret]=stats['mag'].get(ret,0)+1
    if ret!=0:
        if not (np.array_equal(xm.ravel(),x) and np.array_equal(Wm_,W)): viol+=1
    else:
        if not (np.all(np.isfinite(xm)) and np.all(np.isfinite(Wm_))): nanc+=1
        else:
            dP=Wm_@Wm_.T-W@W.T; maxeig=max(maxeig,np.linalg.eigvalsh(dP).max())
print('corr',stats,'reject-not-identical',viol,'nan',nanc,'max eig(P+ - P)',maxeig)
