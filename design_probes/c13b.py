import numpy as np, casadi as ca, io, contextlib, itertools
with contextlib.redirect_stdout(io.StringIO()):
    from cyecca.models import rdd2
f=rdd2.derive_control_allocation()['f_alloc']
rng=np.random.default_rng(50)
def D(x): return np.array(ca.DM(x)).ravel()
def Bmat(l,Cm): return np.array([[1,1,1,1],[-l,l,l,-l],[-l,l,-l,l],[-Cm,-Cm,Cm,Cm]],float)
cells={}; viol=[]
def check(Fmax,l,Cm,Ct,T,M,tag):
    om,Fp,Fm,Ft,Ms=[D(o) for o in f(Fmax,l,Cm,Ct,T,M)]
    B=Bmat(l,Cm); Fs=Fm+Ft
    C1=Fmax-Fs.max(); C2=Fs.min(); lm=np.abs(Fm).max()
    cell=(np.sign(T)<0 and 'T<0' or (T>4*Fmax and 'T>max' or 'Tin'), 'Msat' if np.any(np.abs(M)>l*4*Fmax/2) else 'Min', int(np.sign(C1)), int(np.sign(C2)), lm>1e-5)
    cells[cell]=cells.get(cell,0)+1
    tol=1e-9*Fmax
    ok=np.all(np.isfinite(om)) and np.all(om>=0) and np.all(Fp>=-0) and np.all(Fp<=Fmax)
    if not ok: viol.append((tag,'range',cell)); return
    spread=Fm.max()-Fm.min()
    if C1>=0 and C2>=0:
        if np.abs(Fp-Fs).max()>tol: viol.append((tag,'joint',cell,Fp,Fs))
    elif spread<=Fmax:
        real=B@Fp
        if np.abs(real[1:]-Ms).max()>1e-9*Fmax*max(l,Cm,1): viol.append((tag,'moment',cell,real[1:],Ms))
        d=Fp-Fs
        if np.abs(d-d.mean()).max()>tol: viol.append((tag,'shift-not-collective',cell))
        need = -Fs.min() if Fs.min()<0 else (-(Fs.max()-Fmax) if Fs.max()>Fmax else 0)
        if abs(d.mean()-need)>tol: viol.append((tag,'shift-not-least',cell,d.mean(),need))
# random
for k in range(100000):
    Fmax=10**rng.uniform(-1,2); l=10**rng.uniform(-1.5,0.5); Cm=10**rng.uniform(-2.5,0); Ct=10**rng.uniform(-7,-4)
    T=rng.choice([rng.uniform(-1,5)*Fmax, 1e3*Fmax, 4*Fmax, 0, -Fmax])
    M=rng.normal(size=3)*np.array([l,l,Cm])*Fmax*10**rng.uniform(-8,1.5)*rng.choice([0,1],size=3,p=[0.2,0.8])
    check(Fmax,l,Cm,Ct,T,M,'rand')
# directed exact boundaries with power-of-two geometry: construct F_sum directly
for Fmax,l,Cm in itertools.product([1.0,4.0,16.0],[0.25,1.0],[0.125,1.0]):
    B=Bmat(l,Cm)
    for k in range(2000):
        # integer-valued motor forces in units of Fmax/8 so that everything is exact
        u=Fmax/8
        Fs=rng.integers(-4,13,size=4)*u
        if rng.random()<0.5: Fs[rng.integers(4)]=Fmax
        if rng.random()<0.5: Fs[rng.integers(4)]=0
        TM=B@Fs
        check(Fmax,l,Cm,1e-5,TM[0],TM[1:],'directed')
print(len(viol)); 
import collections
print(collections.Counter((v[0],v[1],v[2]) for v in viol).most_common(10))
for c in sorted(cells.items(),key=lambda kv:-kv[1]): print(c)
