import numpy as np, casadi as ca, traceback, io, contextlib
from scipy.linalg import expm
from cyecca.lie import *
rng = np.random.default_rng(1)
def M(X):
    with contextlib.redirect_stdout(io.StringIO()):
        return np.array(ca.DM(X.to_Matrix()))
def unit(n): v=rng.normal(size=n); return v/np.linalg.norm(v)
def alg_sample(G, ang):
    name=type(G).__name__
    if G is SO2: return np.array([ang])
    if G is SE2: return np.r_[rng.normal(size=2)*2, ang]
    if G in (R2,R3): return rng.normal(size=G.n_param)
    if isinstance(G, type(SO3Quat).__mro__[1]): return unit(3)*ang
    if name=='SE3LieGroup': return np.r_[rng.normal(size=3)*2, unit(3)*ang]
    if name=='SE23LieGroup': return np.r_[rng.normal(size=6)*2, unit(3)*ang]
    if name=='LieGroupDirectProduct': return np.concatenate([alg_sample(g,ang) for g in G.groups])
groups = dict(SO2=SO2,SE2=SE2,R3=R3,SO3Quat=SO3Quat,SO3Mrp=SO3Mrp,SO3Dcm=SO3Dcm,SO3EulerB321=SO3EulerB321,SE3Quat=SE3Quat,SE3Mrp=SE3Mrp,SE23Quat=SE23Quat,SE23Mrp=SE23Mrp, DP=SO3Mrp*R3)
angs=[0,1e-300,1e-12,1e-5,9.99e-4,1e-3,1.001e-3,0.0316,0.03163,0.0632,0.06325,0.1,1,3,3.14159,3.2,5,6.2]
for n,G in groups.items():
    worst={}
    for ang in angs:
        e=0
        for k in range(10):
            try:
                x=G.algebra.elem(ca.DM(alg_sample(G,ang)))
                E=M(x.exp(G)); R=expm(M(x))
                e=max(e,np.abs(E-R).max()) if np.all(np.isfinite(E)) else np.inf
            except Exception as ex:
                e='EXC '+repr(ex)[:80]; break
        worst[ang]=e
    print(n, {a:(f'{v:.1e}' if not isinstance(v,str) else v) for a,v in worst.items()})
