import numpy as np, casadi as ca
from cyecca.lie import *
rng=np.random.default_rng(5)
def D(x): return np.array(ca.DM(x))
def unit(n): v=rng.normal(size=n); return v/np.linalg.norm(v)
def rot(axis,ang):
    K=np.array([[0,-axis[2],axis[1]],[axis[2],0,-axis[0]],[-axis[1],axis[0],0]])
    return np.eye(3)+np.sin(ang)*K+(1-np.cos(ang))*K@K
G=dict(Quat=SO3Quat,Mrp=SO3Mrp,Dcm=SO3Dcm,Euler=SO3EulerB321)
def make(name,R,sign=1):
    # build an element of rep `name` from matrix by independent means
    if name=='Dcm': return SO3Dcm.elem(ca.DM(R.reshape(-1,order='F')))
    # quaternion via numpy eig
    w,v=np.linalg.eig(R); ax=np.real(v[:,np.argmin(abs(w-1))]); 
    ang=np.arccos(np.clip((np.trace(R)-1)/2,-1,1))
    if np.abs(rot(ax,ang)-R).max()>1e-6: ax=-ax
    q=np.r_[np.cos(ang/2),np.sin(ang/2)*ax]*sign
    if name=='Quat': return SO3Quat.elem(ca.DM(q))
    if name=='Mrp':
        r=q[1:]/(1+q[0]); return SO3Mrp.elem(ca.DM(r))
    if name=='Euler':
        th=np.arcsin(-R[2,0]); return SO3EulerB321.elem(ca.DM([np.arctan2(R[1,0],R[0,0]),th,np.arctan2(R[2,1],R[2,2])]))
cases=[]
for ang in [0,1e-9,1e-3,1,2,3,np.pi-1e-6,np.pi]:
    for ax in [np.array([1.,0,0]),np.array([0,1.,0]),np.array([0,0,1.]),unit(3),unit(3),np.array([1,1,0])/np.sqrt(2),np.array([1,1,1])/np.sqrt(3)]:
        cases.append(('ang%g'%ang,rot(ax,ang)))
for pitch in [np.pi/2,-np.pi/2,np.pi/2-5e-4,np.pi/2-2e-3,-np.pi/2+5e-4]:
    e=SO3EulerB321.elem(ca.DM([0.7,pitch,-0.4])); cases.append(('gimbal%g'%pitch,D(e.to_Matrix())))
worst={}
for tag,R in cases:
    for src in G:
        for sign in ([1,-1] if src=='Quat' else [1]):
            try:
                X=make(src,R,sign)
            except Exception as ex: print('make fail',src,ex); continue
            Rs=D(X.to_Matrix())
            for dst in G:
                if dst==src: continue
                try:
                    Y=getattr(G[dst],'from_'+src)(X)
                    Rd=D(Y.to_Matrix()); p=D(Y.param).ravel()
                    err=np.abs(Rd-Rs).max() if np.all(np.isfinite(Rd)) else np.inf
                    extra=0
                    if dst=='Quat': extra=abs(np.linalg.norm(p)-1)
                    if dst=='Mrp': extra=max(0,np.linalg.norm(p)-1)
                    if dst=='Dcm': extra=max(np.abs(Rd@Rd.T-np.eye(3)).max(),abs(np.linalg.det(Rd)-1))
                    if dst=='Euler': extra=max(0,abs(p[1])-np.pi/2)
                    if not np.isfinite(extra): extra=np.inf
                except Exception as ex:
                    err=extra=np.inf; print('EXC',src,dst,repr(ex)[:80])
                key=(src+('-' if sign<0 else ''),dst)
                if err>worst.get(key,(0,))[0]: worst[key]=(err,extra,tag)
for k,v in worst.items(): print(k,f'{v[0]:.1e} valid {v[1]:.1e}',v[2])
