import numpy as np, casadi as ca, io, contextlib
with contextlib.redirect_stdout(io.StringIO()):
    from cyecca.estimate.attitude import algorithms
    from cyecca.lie import *
eqs=algorithms.eqs(); mrp=eqs['mrp']
rng=np.random.default_rng(20)
def D(x): return np.array(ca.DM(x))
def unit(n): v=rng.normal(size=n); return v/np.linalg.norm(v)
def rot(ax,ang):
    K=np.array([[0,-ax[2],ax[1]],[ax[2],0,-ax[0]],[-ax[1],ax[0],0]]); return np.eye(3)+np.sin(ang)*K+(1-np.cos(ang))*K@K
codes={}; worst=0; nanfail=0; nan0=0; worst_case=None
for k in range(20000):
    ang=rng.choice([0,np.pi,rng.uniform(0,np.pi),np.pi-1e-9]); R=rot(unit(3),ang)
    decl=rng.uniform(-0.6,0.6); incl=rng.choice([rng.uniform(-1.55,1.55), np.pi/2-rng.uniform(0,0.3), -np.pi/2+rng.uniform(0,0.3)])
    gs=rng.choice([1,1,1,0.85,1.15,0.9,1.1,0,1.0999,0.8979]); Bs=rng.choice([1,1,1,0,1e-12,1e3])
    Bn=np.array([np.cos(incl)*np.cos(decl),np.cos(incl)*np.sin(decl),np.sin(incl)])
    g_b=R.T@np.array([0,0,-9.8])*gs; B_b=R.T@Bn*Bs
    x0,ret=mrp['initialize'](g_b,B_b,decl); ret=int(ret); x0=D(x0).ravel()
    codes[ret]=codes.get(ret,0)+1
    if not np.all(np.isfinite(x0)):
        if ret==0: nan0+=1
        else: nanfail+=1
        continue
    if ret==0:
        e=np.abs(D(SO3Mrp.elem(ca.DM(x0[:3])).to_Matrix())-R).max()
        if e>worst: worst=e; worst_case=(ang,incl,decl,gs,Bs,np.linalg.norm(x0[:3]))
print(codes,'worst',worst,worst_case,'nan on fail',nanfail,'nan on ok',nan0)
