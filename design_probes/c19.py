import numpy as np, casadi as ca, sympy as sp, io, contextlib, traceback
from cyecca.symbolic import sympy_to_casadi, casadi_to_sympy
x,y=sp.symbols('x y')
def s2c(expr, pt, f_dict=None):
    try:
        e,syms=sympy_to_casadi(expr,f_dict=f_dict)
        names=list(syms); F=ca.Function('F',[syms[n] for n in names],[e]) if names else None
        val=float(F(*[pt[n] for n in names])) if names else float(ca.DM(e))
        ref=float(expr.subs({sp.Symbol(k):v for k,v in pt.items()}).evalf())
        return val,ref
    except Exception as ex: return 'EXC',repr(ex)[:80]
pt={'x':0.7,'y':-1.3}
for e in [sp.Float(2.5)*x, x**2.5, sp.Rational(-3,7)*x, sp.sqrt(x), x**sp.Rational(1,3), sp.sin(x)*sp.cos(y)+sp.tan(x), sp.atan(y), sp.exp(x), sp.Abs(y), sp.Piecewise((x,x<y),(y,True)), sp.Max(x,y), sp.Mod(x,y), sp.pi*x, sp.E*x, x-y, x/y, sp.Integer(3), sp.Matrix([[x,2.5],[y,1]])]:
    if isinstance(e,sp.Matrix):
        try:
            m,syms=sympy_to_casadi(e); F=ca.Function('F',[syms['x'],syms['y']],[m]); print('matrix',np.array(F(0.7,-1.3)), e.subs({x:0.7,y:-1.3}))
        except Exception as ex: print('matrix EXC',ex)
        continue
    print(e,'->',s2c(e,pt))
# f_dict multiple
fd={'f':ca.sin,'g':ca.cos}
f=sp.Function('f'); g=sp.Function('g')
print('f_dict g(x):',s2c.__call__(g(x),pt,fd) if False else None)
try:
    e,syms=sympy_to_casadi(g(x)+f(x),f_dict=fd); F=ca.Function('F',[syms['x']],[e]); print('g(x)+f(x) =',float(F(0.7)),'expected',np.cos(0.7)+np.sin(0.7))
except Exception as ex: print('EXC',ex)
# symbol table
e1,syms=sympy_to_casadi(x+y); e2,syms2=sympy_to_casadi(x*y,symbols=syms); print('same symbols', syms is syms2, ca.depends_on(e2,syms['x']))
# casadi -> sympy
a=ca.SX.sym('a'); b=ca.SX.sym('b')
def c2s(expr,vals):
    try:
        s=casadi_to_sympy(expr); 
        F=ca.Function('F',[a,b],[expr]); ref=float(F(vals[0],vals[1]))
        val=s.subs({sp.Symbol('a'):vals[0],sp.Symbol('b'):vals[1]}) if hasattr(s,'subs') else s
        try: val=float(val)
        except Exception: val=str(val)
        return val,ref,str(s)[:60]
    except Exception as ex: return 'EXC',repr(ex)[:80]
for nm,e in dict(fmod=ca.fmod(a,b),rem=ca.remainder(a,b),lt=a<b,le=a<=b,eq=ca.eq(a,b),ne=ca.ne(a,b),ifelse=ca.if_else(a<b,a*2,b*3),fmin=ca.fmin(a,b),fmax=ca.fmax(a,b),const=a*2.5+0.1,sign=ca.sign(a),floor=ca.floor(a),atan2=ca.atan2(a,b),pow=a**b,sq=a**2,cpow=a**2.5,neg=-a,inv=1/a,acosh=ca.acosh(a+2),asinh=ca.asinh(a),cosh=ca.cosh(a),notop=ca.logic_not(a<b),andop=ca.logic_and(a<b,a<0),fabs=ca.fabs(a),log=ca.log(b+3),sqrt=ca.sqrt(b+3),erf=ca.erf(a),inf=a+ca.inf,copysign=ca.copysign(a,b)).items():
    for vals in [(-1.7,0.6),(1.7,-0.6),(2.3,0.6)]:
        print(nm,vals,c2s(e,vals))
