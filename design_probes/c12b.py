import numpy as np, io, contextlib, sys, json
with contextlib.redirect_stdout(io.StringIO()):
    from cyecca.estimate.attitude import launch
def quat_err(q1,q2):
    d=np.abs(np.sum(q1*q2,axis=1)); return 2*np.arccos(np.clip(d,0,1))
seed=int(sys.argv[1]); rng=np.random.default_rng(seed)
ang=rng.uniform(0,np.pi); ax=rng.normal(size=3); ax/=np.linalg.norm(ax); r=np.tan(ang/4)*ax
b=rng.uniform(-0.1,0.1,size=3); init=bool(seed%2)
incl=rng.uniform(-1.0,1.0); decl=rng.uniform(-0.4,0.4)
params={"tf":30,"initialize":init,"estimators":["mrp"],"x0":np.r_[r,b],
  "params":{"sim/enable_noise":False,"sim/mag_incl":incl,"sim/mag_decl":decl,"mrp/mag_decl":decl,"sim/dt_sim":rng.choice([1/400,1/250,1/800]),"sim/dt_imu":rng.choice([1/200,1/100]),"sim/dt_mag":rng.choice([1/50,1/20]),"logger/dt":rng.choice([1/200,1/100,0.013])}}
with contextlib.redirect_stdout(io.StringIO()):
    log=launch.launch_sim(params)
t=log['time']; err=quat_err(log['sim_attitude']['q'],log['mrp_attitude']['q']); be=log['mrp_attitude']['b']-log['sim_attitude']['b']
m=t>10
print(json.dumps(dict(seed=seed,init=init,ang=round(ang,2),incl=round(incl,2),decl=round(decl,2),b0=np.round(b,3).tolist(),max_err_after10=float(np.nanmax(err[m])),err_end=float(err[-1]),bias_end=np.round(be[-1],4).tolist(),nan_rows=int(np.isnan(err[m]).sum()))))
