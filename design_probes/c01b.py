exec(open('c01.py').read().split("groups = dict")[0])
from cyecca.lie.group_se3 import SE3LieGroup
from cyecca.lie.group_se23 import SE23LieGroup
groups=dict(SE3Dcm=SE3LieGroup(SO3=SO3Dcm),SE3Euler=SE3LieGroup(SO3=SO3EulerB321),SE23Dcm=SE23LieGroup(SO3=SO3Dcm),SE23Euler=SE23LieGroup(SO3=SO3EulerB321), nested=(SO3Quat*R3)*(SE2*SO2), quad=SO2*SE2*R2*SE3Mrp)
from scipy.linalg import expm
for n,G in groups.items():
    errs={}
    try:
        for k in range(30):
            X=G.elem(ca.DM(sample(G))); Y=G.elem(ca.DM(sample(G)))
            def upd(key,val): errs[key]=max(errs.get(key,0),float(val))
            upd('prod', np.abs(M(X*Y)-M(X)@M(Y)).max()); upd('inv', np.abs(M(X.inverse())-np.linalg.inv(M(X))).max())
            I=G.identity(); upd('id', np.abs(M(I)-np.eye(M(I).shape[0])).max())
            x=G.algebra.elem(ca.DM(rng.normal(size=G.algebra.n_param)*0.7))
            upd('exp',np.abs(M(x.exp(G))-expm(M(x))).max())
            upd('explog',np.abs(M(X.log().exp(G))-M(X)).max())
    except Exception as e: errs['EXC']=repr(e)[:200]
    print(n,G.n_param,G.matrix_shape,errs)
