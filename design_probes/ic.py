import sys; sys.path.insert(0,'/tmp/scratch/deps')
import icontract, numpy as np, casadi as ca, time
from cyecca.lie import *
from cyecca.lie.group_so3 import SO3QuatLieGroup, SO3LieGroup
class PostBroken(Exception): pass
stats={'n':0,'skipped':0}
def is_num(e):
    try: ca.DM(e.param); return True
    except Exception: return False
def product_is_matrix_product(self, left, right, result):
    if not (is_num(left) and is_num(right)):
        stats['skipped']+=1; return True
    stats['n']+=1
    L=np.array(ca.DM(self.to_Matrix(left))); R=np.array(ca.DM(self.to_Matrix(right))); P=np.array(ca.DM(self.to_Matrix(result)))
    return np.abs(P-L@R).max()<1e-9
orig=SO3QuatLieGroup.product
SO3QuatLieGroup.product=icontract.ensure(product_is_matrix_product,error=PostBroken)(orig)
q=SO3Quat.elem(ca.DM([1,0,0,0])); p=SO3Quat.elem(ca.DM([0,1,0,0]))
t=time.time()
for i in range(1000): r=q*p
print('1000 products with contract', time.time()-t, stats)
# symbolic call skipped
s=SO3Quat.elem(ca.SX.sym('q',4)); r=s*q; print(stats)
# via SE3
X=SE3Quat.elem(ca.DM([1,2,3,1,0,0,0])); Y=X*X; print(stats)
# break it
def bad(self,left,right): return self.elem(left.param+right.param)
SO3QuatLieGroup.product=icontract.ensure(product_is_matrix_product,error=PostBroken)(bad)
try: q*p
except PostBroken as e: print('caught PostBroken', str(e)[:80])
