import numpy as np, casadi as ca, sympy as sp, collections, time, warnings
from cyecca.symbolic import sympy_to_casadi, casadi_to_sympy
rng=np.random.default_rng(60)
a=ca.SX.sym('a'); b=ca.SX.sym('b'); c=ca.SX.sym('c'); V=[a,b,c]
un={'neg':lambda x:-x,'sin':ca.sin,'cos':ca.cos,'tan':ca.tan,'exp':ca.exp,'log':ca.log,'sqrt':ca.sqrt,'sq':lambda x:x**2,'twice':lambda x:2*x,'asin':ca.asin,'acos':ca.acos,'atan':ca.atan,'floor':ca.floor,'ceil':ca.ceil,'fabs':ca.fabs,'sign':ca.sign,'erf':ca.erf,'inv':lambda x:1/x,'sinh':ca.sinh,'cosh':ca.cosh,'tanh':ca.tanh,'asinh':ca.asinh,'atanh':ca.atanh,'not':ca.logic_not}
bi={'add':lambda x,y:x+y,'sub':lambda x,y:x-y,'mul':lambda x,y:x*y,'div':lambda x,y:x/y,'pow':lambda x,y:x**y,'lt':lambda x,y:x<y,'le':lambda x,y:x<=y,'eq':ca.eq,'ne':ca.ne,'and':ca.logic_and,'or':ca.logic_or,'fmod':ca.fmod,'fmin':ca.fmin,'fmax':ca.fmax,'atan2':ca.atan2,'rem':ca.remainder,'ifelse':None}
def gen(d):
    if d==0 or rng.random()<0.2:
        r=rng.random()
        if r<0.6: return V[rng.integers(3)],['sym']
        if r<0.8: return ca.SX(int(rng.integers(-3,4))),['int']
        return ca.SX(float(np.round(rng.normal()*3,3))),['float']
    if rng.random()<0.4:
        k=list(un)[rng.integers(len(un))]; e,ops=gen(d-1); return un[k](e),ops+[k]
    k=list(bi)[rng.integers(len(bi))]; e1,o1=gen(d-1); e2,o2=gen(d-1)
    if k=='ifelse':
        e3,o3=gen(d-1); return ca.if_else(e1<e2,e3,e1),o1+o2+o3+[k]
    return bi[k](e1,e2),o1+o2+[k]
stat=collections.Counter(); bad=collections.Counter(); t0=time.time(); examples={}
sa,sb,sc=sp.symbols('a b c')
for it in range(1500):
    e,ops=gen(3)
    if e.is_constant(): continue
    F=ca.Function('F',V,[e])
    try:
        with warnings.catch_warnings():
            warnings.simplefilter('ignore'); s=casadi_to_sympy(e)
    except Exception as ex:
        stat['rejected:'+type(ex).__name__]+=1; continue
    stat['accepted']+=1
    ok_pts=0
    for p in range(4):
        pt=rng.normal(size=3)*2
        ref=float(F(*pt))
        if not np.isfinite(ref) or abs(ref)>1e8: continue
        try:
            val=s.subs({sa:pt[0],sb:pt[1],sc:pt[2]}) if hasattr(s,'subs') else s
            if val is sp.true or val is True: val=1.0
            elif val is sp.false or val is False: val=0.0
            val=complex(val)
            if abs(val.imag)>1e-12: raise ValueError('complex')
            val=val.real
        except Exception as ex:
            stat['evalfail:'+type(ex).__name__]+=1; continue
        ok_pts+=1
        if abs(val-ref)>1e-9*max(1,abs(ref)):
            key=tuple(sorted(set(ops)&{'fmod','rem','eq','ne','sign','floor','ceil','pow','lt','le','and','or','not','ifelse','fmin','fmax','atan2'}))
            bad[key]+=1; examples.setdefault(key,(str(e)[:80],pt.tolist(),val,ref))
    stat['pts']+=ok_pts
print(dict(stat),'time',round(time.time()-t0,1))
for k,v in bad.most_common(12): print(v,k,examples[k])
