import os, sys, io, contextlib, subprocess, itertools, time
import casadi as ca
with contextlib.redirect_stdout(io.StringIO()):
    from cyecca.models import rdd2, rdd2_loglinear, bezier, mr_ref_traj
    from cyecca.estimate.attitude import algorithms
    from cyecca import codegen
eqs={}
for fn in ['derive_attitude_rate_control','derive_attitude_control','derive_position_control','derive_input_acro','derive_input_auto_level','derive_input_velocity','derive_strapdown_ins_propagation','derive_control_allocation','derive_common']:
    eqs.update(getattr(rdd2,fn)())
t=time.time()
rdd2.generate_code(eqs, filename='rdd2.c', dest_dir='/tmp/scratch/gen')
print('rdd2 gen', time.time()-t, list(eqs))
eq2={}
for fn in ['derive_so3_attitude_control','derive_outerloop_control','derive_se23_error']: eq2.update(getattr(rdd2_loglinear,fn)())
rdd2_loglinear.generate_code(eq2, filename='rdd2_loglinear.c', dest_dir='/tmp/scratch/gen')
eq3={}
for fn in ['derive_bezier7','derive_bezier3','derive_dcm_to_quat','derive_ref','derive_multirotor']: eq3.update(getattr(bezier,fn)())
bezier.generate_code(eq3, filename='bezier.c', dest_dir='/tmp/scratch/gen')
aeqs=algorithms.eqs()
try:
    algorithms.generate_code(aeqs,'/tmp/scratch/gen')
except Exception as e: print('alg default FAIL', str(e)[:100])
algorithms.generate_code(aeqs,'/tmp/scratch/gen', with_mem=False)
codegen.generate_code(aeqs,'/tmp/scratch/gen2')
codegen.generate_code({'mr':mr_ref_traj.derive_mr_ref_traj()},'/tmp/scratch/gen2')
print(os.listdir('/tmp/scratch/gen'), os.listdir('/tmp/scratch/gen2'))
for d in ['gen','gen2']:
    for fcs in os.listdir('/tmp/scratch/'+d):
        if fcs.endswith('.c'):
            t=time.time()
            r=subprocess.run(['gcc','-Wall','-Wextra','-O1','-fPIC','-shared','-o',f'/tmp/scratch/{d}/{fcs[:-2]}.so',f'/tmp/scratch/{d}/{fcs}','-lm'],capture_output=True,text=True)
            print(fcs,'rc',r.returncode,'warn lines',len(r.stderr.splitlines()),'t',round(time.time()-t,1), os.path.getsize(f'/tmp/scratch/{d}/{fcs}'))
            if r.stderr: print(r.stderr[:600])
