import numpy as np, casadi as ca, io, contextlib
with contextlib.redirect_stdout(io.StringIO()):
    from cyecca.models import rdd2, rdd2_loglinear, bezier, mr_ref_traj
    from cyecca.lie import *
rng=np.random.default_rng(11)
def D(x): return np.array(ca.DM(x))
fref=bezier.derive_ref()['f_ref']; mr=mr_ref_traj.derive_mr_ref_traj()['mr_ref_traj']
print(fref); print(mr)
t=ca.SX.sym('t')
worst={}
for k in range(200):
    # polynomial trajectory p(t) deg 6 per axis, psi(t) deg 3
    c=rng.normal(size=(3,7))*np.array([1,1,2,2,1,0.5,0.2]); cp=rng.normal(size=4)
    pos=ca.vertcat(*[sum(c[i,j]*t**j for j in range(7)) for i in range(3)])
    ders=[pos]
    for j in range(4): ders.append(ca.jacobian(ders[-1],t))
    psi=sum(cp[j]*t**j for j in range(4)); dpsi=ca.jacobian(psi,t); ddpsi=ca.jacobian(dpsi,t)
    m=2.0; g=9.8; J=(0.0216666,0.0216666,0.04,0)
    out=mr(psi,dpsi,ddpsi,ders[1],ders[2],ders[3],ders[4],m,g,*J)
    v_b,C,om,omd,M,T=out
    Cdot=ca.jacobian(ca.vec(C),t).reshape((3,3))
    omdot=ca.jacobian(om,t)
    F=ca.Function('F',[t],[C,Cdot,om,omd,omdot,M,T]+list(fref(psi,dpsi,ddpsi,ders[1],ders[2],ders[3],ders[4]))+[ders[2]])
    t0=rng.uniform(-1,1)
    C,Cdot,om,omd,omdot,M,T,vb2,q2,om2,omd2,M2,T2,a=[D(o) for o in F(t0)]
    om=om.ravel(); W=np.array([[0,-om[2],om[1]],[om[2],0,-om[0]],[-om[1],om[0],0]])
    Om_true=C.T@Cdot  # should be skew = [omega_b]x
    wtrue=np.array([Om_true[2,1],Om_true[0,2],Om_true[1,0]])
    def up(k,v): worst[k]=max(worst.get(k,0),float(v))
    up('orth',np.abs(C.T@C-np.eye(3)).max()); up('det',abs(np.linalg.det(C)-1))
    up('zb',np.abs(C[:,2]-(m*(g*np.array([0,0,1])-a.ravel()))/T.ravel()[0]).max())
    up('pq',np.abs(wtrue[:2]-om[:2]).max()); up('r',abs(wtrue[2]-om[2]))
    up('omdot_pq',np.abs(omdot.ravel()[:2]-omd.ravel()[:2]).max()); up('omdot_r',abs(omdot.ravel()[2]-omd.ravel()[2]))
    Jm=np.diag(J[:3]); up('euler',np.abs(M.ravel()-(Jm@omd.ravel()+np.cross(om,Jm@om))).max())
    R2=D(SO3Quat.elem(ca.DM(q2)).to_Matrix())
    up('agree_R',np.abs(R2-C).max()); up('agree_om',np.abs(om2.ravel()-om).max()); up('agree_M',np.abs(M2-M).max()); up('agree_omd',np.abs(omd2-omd).max()); up('qunit',abs(np.linalg.norm(q2)-1))
print(worst)
