import numpy as np, casadi as ca, io, contextlib, time, sys
with contextlib.redirect_stdout(io.StringIO()):
    from cyecca.models import quadrotor, rdd2, rdd2_loglinear
    from cyecca.lie import *
def D(x): return np.array(ca.DM(x)).ravel()
model=quadrotor.derive_model(); f=model['f']; p=np.array(list(model['p_defaults'].values()),dtype=float); pi=model['p_index']
eqs={}
for fn in ['derive_attitude_rate_control','derive_attitude_control','derive_position_control','derive_control_allocation','derive_common']: eqs.update(getattr(rdd2,fn)())
for fn in ['derive_se23_error','derive_so3_attitude_control','derive_outerloop_control']: eqs.update(getattr(rdd2_loglinear,fn)())
# rk4 integrator of plant with substeps
xs=ca.SX.sym('x',17);us=ca.SX.sym('u',4);ps=ca.SX.sym('p',39);h=ca.SX.sym('h')
def rk(x,u,pp,h):
    k1=f(x,u,pp);k2=f(x+h/2*k1,u,pp);k3=f(x+h/2*k2,u,pp);k4=f(x+h*k3,u,pp); return x+h/6*(k1+2*k2+2*k3+k4)
xn=xs
for i in range(10): xn=rk(xn,us,ps,h/10)
step=ca.Function('step',[xs,us,ps,h],[xn])
def run(x0, target, mode, tf=20, dt=0.01, yaw=0.0):
    x=x0.copy(); m=p[pi['m']]; g=p[pi['g']]; trim=m*g; F_max=20; l=p[pi['l_motor_0']]; CM=p[pi['CM']]; CT=p[pi['CT']]
    k_p_att=np.array([5,5,2.]); kp=np.array([0.3,0.3,0.05]); ki=np.zeros(3); kd=np.array([0.1,0.1,0]); f_cut=10.0; i_max=np.zeros(3)
    i0=np.zeros(3); e0=np.zeros(3); de0=np.zeros(3); z_i=0.0
    qc=np.array([np.cos(yaw/2),0,0,np.sin(yaw/2)])
    hist=[]
    for k in range(int(tf/dt)):
        pw=x[0:3]; q=x[6:10]; om=x[10:13]; vb=x[3:6]
        vw=D(eqs['rotate_vector_b_to_w'](q,vb))
        if mode=='mellinger':
            thrust,q_sp,z_i=[D(o) for o in eqs['position_control'](trim,target,np.zeros(3),np.zeros(3),qc,pw,vw,z_i,dt)]
            om_sp=D(eqs['attitude_control'](k_p_att,q,q_sp))
        else:
            zeta=D(eqs['se23_error'](pw,vw,q,target,np.zeros(3),qc))
            thrust,q_sp,z_i=[D(o) for o in eqs['se23_position_control'](trim,k_p_att,zeta,np.zeros(3),qc,z_i,dt)]
            om_sp=D(eqs['so3_attitude_control'](k_p_att,q,q_sp))
        M,i0,e0,de0,alpha=[D(o) for o in eqs['attitude_rate_control'](kp,ki,kd,f_cut,i_max,om,om_sp,i0,e0,de0,dt)]
        u,Fp,Fm,Ft,Ms=[D(o) for o in eqs['f_alloc'](F_max,l,CM,CT,thrust,M)]
        x=D(step(x,u,p,dt))
        x[6:10]/=np.linalg.norm(x[6:10])
        if not np.all(np.isfinite(x)): return hist,'nan at %d'%k
        hist.append(np.r_[k*dt,np.linalg.norm(x[0:3]-target),x[6],np.linalg.norm(x[10:13]),Fp.max(),np.linalg.norm(vb)])
    return np.array(hist),'ok'
rng=np.random.default_rng(14)
def unit(n): v=rng.normal(size=n); return v/np.linalg.norm(v)
for mode in ['mellinger','loglinear']:
    for trial in range(4):
        x0=np.zeros(17); x0[0:3]=np.array([0,0,5.])+rng.uniform(-1.5,1.5,size=3); ang=rng.uniform(0,1.0); ax=unit(3); x0[6:10]=np.r_[np.cos(ang/2),np.sin(ang/2)*ax]; x0[3:6]=rng.normal(size=3); x0[10:13]=rng.normal(size=3)
        omh=np.sqrt(p[pi['m']]*p[pi['g']]/4/p[pi['CT']]); x0[13:]=omh
        t=time.time(); h,st=run(x0,np.array([0,0,5.]),mode,tf=20)
        if st=='ok':
            print(mode,trial,'tilt0',round(ang,2),'final pos err',h[-1,1],'max err last 5s',h[-500:,1].max(),'rates',h[-1,3],'maxF',h[:,4].max(),'minz?',' time',round(time.time()-t,1))
        else: print(mode,trial,st, len(h))
