import numpy as np, casadi as ca, io, contextlib, time
with contextlib.redirect_stdout(io.StringIO()):
    from cyecca.estimate.attitude import launch
    from cyecca.lie import *
def run(init, x0, tf=20, incl=0.3, decl=0.0):
    params={"tf":tf,"initialize":init,"estimators":["mrp"],"x0":np.array(x0),
      "params":{"sim/enable_noise":False,"sim/mag_incl":incl,"sim/mag_decl":decl,"mrp/mag_decl":decl}}
    t=time.time()
    with contextlib.redirect_stdout(io.StringIO()):
        log=launch.launch_sim(params)
    return log,time.time()-t
def quat_err(q1,q2):
    # angle between rotations
    d=np.abs(np.sum(q1*q2,axis=1)); return 2*np.arccos(np.clip(d,0,1))
for init in [False,True]:
    log,el=run(init,[0.1,0.2,0.3,0.07,0.02,-0.07])
    t=log['time']; qs=log['sim_attitude']['q']; qe=log['mrp_attitude']['q']
    err=quat_err(qs,qe)
    bs=log['sim_attitude']['b']; be=log['mrp_attitude']['b']
    st=log['mrp_status']
    acc=log['imu']['accel']; mag=log['mag']['mag']
    print('init',init,'elapsed',round(el,1),'rows',len(t),'names',log.dtype.names)
    print(' |accel| range',np.nanmin(np.linalg.norm(acc,axis=1)),np.nanmax(np.linalg.norm(acc,axis=1)),' |mag|',np.nanmin(np.linalg.norm(mag,axis=1)),np.nanmax(np.linalg.norm(mag,axis=1)))
    for T in [1,5,10,19.9]:
        i=np.searchsorted(t,T); print('  t',T,'att err',err[i],'bias err',(be[i]-bs[i]), 'accel_ret',st['accel_ret'][i],'mag_ret',st['mag_ret'][i])
    print('  accel_ret values',np.unique(st['accel_ret'][~np.isnan(st['accel_ret'])],return_counts=True),'mag_ret',np.unique(st['mag_ret'][~np.isnan(st['mag_ret'])],return_counts=True))
