import casadi as ca, os, itertools, subprocess, io, contextlib
with contextlib.redirect_stdout(io.StringIO()):
    from cyecca.models import bezier
eqs=bezier.derive_bezier3()
base={"verbose": True,"mex": False,"cpp": False,"main": False,"with_header": True,"with_mem": False,"with_export": False,"with_import": False,"include_math": True,"avoid_stack": True}
os.makedirs('/tmp/scratch/g3',exist_ok=True)
res={}
for k in base:
    p=dict(base); p[k]=not base[k]
    try:
        for f in os.listdir('/tmp/scratch/g3'): os.remove('/tmp/scratch/g3/'+f)
        gen=ca.CodeGenerator('b.c',p)
        for n,e in eqs.items(): gen.add(e)
        gen.generate('/tmp/scratch/g3/')
        files=sorted(os.listdir('/tmp/scratch/g3'))
        src=[f for f in files if f.endswith(('.c','.cpp'))][0]
        r=subprocess.run(['gcc' if src.endswith('.c') else 'g++','-Wall','-c','-o','/tmp/scratch/g3/b.o','/tmp/scratch/g3/'+src],capture_output=True,text=True)
        res[k]=(files,r.returncode,r.stderr[:200])
    except Exception as ex: res[k]=('EXC',str(ex)[:120])
for k,v in res.items(): print(k,'=',not base[k],v)
p=dict(base); p['with_mem']=True; p['force_canonical']=True
gen=ca.CodeGenerator('bm.c',p)
for n,e in eqs.items(): gen.add(e)
gen.generate('/tmp/scratch/g3/')
r=subprocess.run(['gcc','-Wall','-c','-o','/tmp/scratch/g3/bm.o','/tmp/scratch/g3/bm.c'],capture_output=True,text=True); print('with_mem+force_canonical',r.returncode,r.stderr[:500])
print(subprocess.run("nm /tmp/scratch/g3/bm.o | grep ' T ' | head -50",shell=True,capture_output=True,text=True).stdout)
