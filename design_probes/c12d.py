import numpy as np, io, contextlib, sys, json
with contextlib.redirect_stdout(io.StringIO()):
    from cyecca.estimate.attitude import launch
def quat_err(q1,q2):
    d=np.abs(np.sum(q1*q2,axis=1)); return 2*np.arccos(np.clip(d,0,1))
seed=int(sys.argv[1]); dt_imu=eval(sys.argv[2]); dt_sim=eval(sys.argv[3]); dt_mag=eval(sys.argv[4]); tf=float(sys.argv[5])
rng=np.random.default_rng(seed)
ang=rng.uniform(0,np.pi); ax=rng.normal(size=3); ax/=np.linalg.norm(ax); r=np.tan(ang/4)*ax
b=rng.uniform(-0.1,0.1,size=3); init=bool(seed%2)
incl=rng.uniform(-1.0,1.0); decl=rng.uniform(-0.4,0.4)
params={"tf":tf,"initialize":init,"estimators":["mrp"],"x0":np.r_[r,b],
  "params":{"sim/enable_noise":False,"sim/mag_incl":incl,"sim/mag_decl":decl,"mrp/mag_decl":decl,"sim/dt_sim":dt_sim,"sim/dt_imu":dt_imu,"sim/dt_mag":dt_mag,"logger/dt":1/200}}
with contextlib.redirect_stdout(io.StringIO()):
    log=launch.launch_sim(params)
t=log['time']; err=quat_err(log['sim_attitude']['q'],log['mrp_attitude']['q']); be=log['mrp_attitude']['b']-log['sim_attitude']['b']
out=dict(seed=seed,dt_imu=round(dt_imu,5),dt_sim=round(dt_sim,5),dt_mag=dt_mag)
for a,bb in [(5,10),(10,20),(20,30),(30,40),(40,60)]:
    m=(t>a)&(t<=bb)
    if m.any(): out[f'max{a}-{bb}']=round(float(np.nanmax(err[m])),4)
out['bias_end']=np.round(be[-1],4).tolist()
print(json.dumps(out))
