import sys, json
exec(open('c17.py').read().split("rng=np.random.default_rng(14)")[0])
seed=int(sys.argv[1]); rng=np.random.default_rng(seed)
def unit(n): v=rng.normal(size=n); return v/np.linalg.norm(v)
res=[]
for trial in range(4):
    mode=['mellinger','loglinear'][trial%2]
    x0=np.zeros(17); tgt=np.array([0,0,6.]); x0[0:3]=tgt+rng.uniform(-3,3,size=3); ang=rng.uniform(0,np.pi/3); ax=unit(3); x0[6:10]=np.r_[np.cos(ang/2),np.sin(ang/2)*ax]; x0[3:6]=rng.normal(size=3)*1.5; x0[10:13]=rng.normal(size=3)*1.5
    omh=np.sqrt(p[pi['m']]*p[pi['g']]/4/p[pi['CT']]); x0[13:]=omh*rng.uniform(0,1.3)
    yaw=rng.uniform(-np.pi,np.pi)
    h,st=run(x0,tgt,mode,tf=30,yaw=yaw)
    if st=='ok': res.append(dict(seed=seed,mode=mode,tilt0=round(ang,2),d0=round(float(np.linalg.norm(x0[:3]-tgt)),2),yaw=round(yaw,2),final=float(h[-1,1]),last5=float(h[-500:,1].max()),rates=float(h[-500:,3].max()),maxF=float(h[:,4].max()),minalt='?'))
    else: res.append(dict(seed=seed,mode=mode,status=st,tilt0=ang))
print(json.dumps(res))
