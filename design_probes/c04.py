import numpy as np, casadi as ca, io, contextlib
from scipy.linalg import expm
from cyecca.lie import *
exec(open('c01.py').read().split("groups =")[0].split("def M(X)")[0])  # reuse sample()
def M(X):
    with contextlib.redirect_stdout(io.StringIO()):
        return np.array(ca.DM(X.to_Matrix()))
def D(x):
    with contextlib.redirect_stdout(io.StringIO()):
        return np.array(ca.DM(x))
groups = dict(SO2=SO2,SE2=SE2,R2=R2,R3=R3,SO3Quat=SO3Quat,SO3Mrp=SO3Mrp,SO3Dcm=SO3Dcm,SO3EulerB321=SO3EulerB321,SE3Quat=SE3Quat,SE3Mrp=SE3Mrp,SE23Quat=SE23Quat,SE23Mrp=SE23Mrp, DP=SO3Mrp*R3)
for n,G in groups.items():
    a=G.algebra; N=a.n_param
    res={}
    try:
        X=G.elem(ca.DM(sample(G))); Y=G.elem(ca.DM(sample(G)))
        x=a.elem(ca.DM(rng.normal(size=N))); y=a.elem(ca.DM(rng.normal(size=N))); z=a.elem(ca.DM(rng.normal(size=N)))
        # basis matrices to vee via least squares
        Bm=np.stack([M(a.elem(ca.DM(np.eye(N)[i]))).ravel() for i in range(N)],axis=1)
        vee=lambda Mat: np.linalg.lstsq(Bm, Mat.ravel(), rcond=None)[0]
        try:
            Ad=D(X.Ad()); res['Ad_shape']=Ad.shape
            conj=M(X)@M(y)@np.linalg.inv(M(X))
            res['Ad_conj']=np.abs(Ad@D(y.param).ravel()-vee(conj)).max()
            res['Ad_hom']=np.abs(D((X*Y).Ad())-Ad@D(Y.Ad())).max()
            res['Ad_inv']=np.abs(D(X.inverse().Ad())-np.linalg.inv(Ad)).max()
            res['Ad_exp']=np.abs(D(x.exp(G).Ad())-expm(D(x.ad()))).max()
        except Exception as e: res['Ad']='EXC '+repr(e)[:90]
        try:
            ad=D(x.ad()); res['ad_shape']=ad.shape
            br=x*y
            comm=M(x)@M(y)-M(y)@M(x)
            res['br_comm']=np.abs(D(br.param).ravel()-vee(comm)).max()
            res['ad_br']=np.abs(ad@D(y.param).ravel()-D(br.param).ravel()).max()
        except Exception as e: res['ad']='EXC '+repr(e)[:90]
    except Exception as e:
        res['EXC']=repr(e)[:100]
    print(n,res)
