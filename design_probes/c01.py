import numpy as np, casadi as ca, traceback
import cyecca.lie as lie
from cyecca.lie import *
rng = np.random.default_rng(0)
def randq():
    q = rng.normal(size=4); return q/np.linalg.norm(q)
def randR():
    q=randq(); return np.array(ca.DM(SO3Quat.elem(ca.DM(q)).to_Matrix()))
def sample(G):
    name = type(G).__name__
    if G is SO2: return rng.uniform(-6,6,size=1)
    if G is SE2: return np.r_[rng.normal(size=2)*3, rng.uniform(-6,6)]
    if G in (R2,R3): return rng.normal(size=G.n_param)*3
    if G is SO3Quat: return randq()
    if G is SO3Mrp: return rng.normal(size=3)*rng.choice([0.3,1.5])
    if G is SO3Dcm: return randR().reshape(-1, order='F')
    if G is SO3EulerB321: return np.r_[rng.uniform(-3,3), rng.uniform(-1.4,1.4), rng.uniform(-3,3)]
    if name=='SE3LieGroup': return np.r_[rng.normal(size=3)*3, sample(G.SO3)]
    if name=='SE23LieGroup': return np.r_[rng.normal(size=6)*3, sample(G.SO3)]
    if name=='LieGroupDirectProduct': return np.concatenate([sample(g) for g in G.groups])
    raise Exception(name)
def M(X): return np.array(ca.DM(X.to_Matrix()))
groups = dict(SO2=SO2,SE2=SE2,R2=R2,R3=R3,SO3Quat=SO3Quat,SO3Mrp=SO3Mrp,SO3Dcm=SO3Dcm,SO3EulerB321=SO3EulerB321,SE3Quat=SE3Quat,SE3Mrp=SE3Mrp,SE23Quat=SE23Quat,SE23Mrp=SE23Mrp, DP=SO3Mrp*R3, DP3=SO2*SE2*SO3Quat)
for n,G in groups.items():
    errs={}
    for k in range(50):
        try:
            X=G.elem(ca.DM(sample(G))); Y=G.elem(ca.DM(sample(G))); Z=G.elem(ca.DM(sample(G)))
            def upd(key,val): errs[key]=max(errs.get(key,0),val)
            upd('prod', np.abs(M(X*Y)-M(X)@M(Y)).max())
            upd('inv', np.abs(M(X.inverse())-np.linalg.inv(M(X))).max())
            I=G.identity()
            upd('id', np.abs(M(I)-np.eye(M(I).shape[0])).max())
            upd('idL', np.abs(M(I*X)-M(X)).max()); upd('idR', np.abs(M(X*I)-M(X)).max())
            upd('assoc', np.abs(M((X*Y)*Z)-M(X*(Y*Z))).max())
        except Exception as e:
            errs['EXC']=repr(e)[:150]; break
    try:
        X=G.elem(ca.DM(sample(G)))
        X2=G.from_Matrix(ca.SX(ca.DM(M(X))))
        errs['fromM']=np.abs(M(X2)-M(X)).max()
    except Exception as e:
        errs['fromM']='EXC '+repr(e)[:100]
    print(n, errs)
