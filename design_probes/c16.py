import numpy as np, casadi as ca, io, contextlib
with contextlib.redirect_stdout(io.StringIO()):
    from cyecca.models import quadrotor
    from cyecca.lie import *
rng=np.random.default_rng(13)
def D(x): return np.array(ca.DM(x)).ravel()
def unit(n): v=rng.normal(size=n); return v/np.linalg.norm(v)
m=quadrotor.derive_model()
f=m['f']; p0=np.array(list(m['p_defaults'].values()),dtype=float); pi=m['p_index']; xi=m['x_index']
print(f, len(p0)); print(pi)
def randp():
    p=p0.copy()
    p[pi['m']]=rng.uniform(0.3,5); p[pi['g']]=rng.uniform(1,20)
    for k in 'Jx Jy Jz'.split(): p[pi[k]]=rng.uniform(0.005,0.1)
    p[pi['CT']]=10**rng.uniform(-6,-4); p[pi['CM']]=10**rng.uniform(-3,-1)
    p[pi['tau_up']]=rng.uniform(0.005,0.1); p[pi['tau_down']]=rng.uniform(0.005,0.1)
    for i in range(4):
        p[pi[f'l_motor_{i}']]=rng.uniform(0.1,0.5); p[pi[f'theta_motor_{i}']]=rng.uniform(-np.pi,np.pi); p[pi[f'dir_motor_{i}']]=rng.choice([-1,1])
    p[pi['CD0']]=rng.choice([0,rng.uniform(0,1)])
    for k in ['Cl_p','Cm_q','Cn_r']: p[pi[k]]=rng.choice([0,rng.normal()*0.1])
    return p
def randx():
    return np.r_[rng.normal(size=2)*5, rng.uniform(0.1,10), rng.normal(size=3)*3, unit(4), rng.normal(size=3)*2, rng.uniform(0,1500,size=4)]
w={}
def up(k,v): w[k]=max(w.get(k,0),float(v))
for k in range(3000):
    p=randp(); x=randx(); u=rng.uniform(0,1500,size=4)
    xd=D(f(x,u,p))
    q=x[6:10]; up('q.qdot',abs(q@xd[6:10]))
    # motor
    om=x[13:]; tau=np.where(u-om>0,p[pi['tau_up']],p[pi['tau_down']])
    up('motor',np.abs(xd[13:]-(u-om)/tau).max()/1e3)
    # force/moment reconstruct
    R=np.array(ca.DM(SO3Quat.elem(ca.DM(q)).to_Matrix()))
    CT=p[pi['CT']];CM=p[pi['CM']]
    F=np.zeros(3);M=np.zeros(3)
    wb=x[10:13]
    for i in range(4):
        th=CT*om[i]**2; l=p[pi[f'l_motor_{i}']];a=p[pi[f'theta_motor_{i}']];d=p[pi[f'dir_motor_{i}']]
        r=l*np.array([np.cos(a),np.sin(a),0]); F+=np.array([0,0,th]); M+=np.cross(r,[0,0,th])-CM*d*th*np.array([0,0,1])+np.array([p[pi['Cl_p']]*wb[0],p[pi['Cm_q']]*wb[1],p[pi['Cn_r']]*wb[2]])*p[pi['S']]*l
    vb=x[3:6];V=np.linalg.norm(vb); drag=-p[pi['CD0']]*0.5*p[pi['rho']]*V**2*p[pi['S']]*(vb/V if V>1e-5 else np.array([1,0,0]))
    mass=p[pi['m']]; J=np.diag([p[pi['Jx']],p[pi['Jy']],p[pi['Jz']]])
    vdot=(F+drag)/mass+R.T@np.array([0,0,-p[pi['g']]])-np.cross(wb,vb)
    up('vdot',np.abs(xd[3:6]-vdot).max())
    wdot=np.linalg.inv(J)@(M-np.cross(wb,J@wb)); up('wdot',np.abs(xd[10:13]-wdot).max()/max(1,np.abs(wdot).max()))
    up('pdot',np.abs(xd[0:3]-R@vb).max())
    # accel
    y=D(m['g_accel'](x,u,p,np.zeros(3),0.01)); up('accel',np.abs(y-(F+drag)/mass).max())
    # equivariance: yaw psi + translation
    psi=rng.uniform(-np.pi,np.pi); qz=np.array([np.cos(psi/2),0,0,np.sin(psi/2)])
    q2=D((SO3Quat.elem(ca.DM(qz))*SO3Quat.elem(ca.DM(q))).param); Rz=np.array(ca.DM(SO3Quat.elem(ca.DM(qz)).to_Matrix()))
    x2=x.copy(); x2[0:3]=Rz@x[0:3]+np.r_[rng.normal(size=2)*10,0]; x2[6:10]=q2
    xd2=D(f(x2,u,p))
    up('equiv_p',np.abs(xd2[0:3]-Rz@xd[0:3]).max()); up('equiv_rest',np.abs(np.r_[xd2[3:6],xd2[10:]]-np.r_[xd[3:6],xd[10:]]).max()/1e3)
    qd_expected=D((SO3Quat.elem(ca.DM(qz))*SO3Quat.elem(ca.DM(xd[6:10]))).param); up('equiv_q',np.abs(xd2[6:10]-qd_expected).max())
print(w)
# hover equilibrium default params
x=np.zeros(17); x[2]=1; x[6]=1; omh=np.sqrt(p0[pi['m']]*p0[pi['g']]/4/p0[pi['CT']]); x[13:]=omh
xd=D(f(x,np.ones(4)*omh,p0)); print('hover xdot max',np.abs(xd).max())
x[13:]=0; print('freefall accel',D(m['g_accel'](x,np.zeros(4),p0,np.zeros(3),0.01)))
