import numpy as np, simpy, io, contextlib
import cyecca.sim.uros as uros, cyecca.sim.msgs as msgs
core=uros.Core()
log=[]
pubs={t:uros.Publisher(core,t,msgs.Imu) for t in ['a','b','c']}
pubm=uros.Publisher(core,'m',msgs.Mag)
class Node:
    def __init__(s,name,topics):
        s.name=name; s.p=uros.Param(core,name+'/k',1.5,'f8'); s.seen=[]
        for t in topics: uros.Subscriber(core,t,msgs.Imu,lambda m,t=t: log.append((name,t,float(m.data['time']),float(m.data['gyro'][0]))))
        uros.Subscriber(core,'params',msgs.Params,s.pcb)
    def pcb(s,msg): s.p.update(); s.seen.append((core.now,s.p.get()))
n1=Node('n1',['a','b']); n2=Node('n2',['b','nopub']); n3=Node('n3',['a'])
lg=uros.Logger(core)
core.init_params()
def proc(t,per,pid):
    i=0
    while True:
        m=msgs.Imu(); m.data['time']=core.now; m.data['gyro']=[pid*1000+i,0,0]; pubs[t].publish(m); i+=1
        yield simpy.Timeout(core,per)
simpy.Process(core,proc('a',0.01,1)); simpy.Process(core,proc('b',0.01,2)); simpy.Process(core,proc('c',0.007,3))
def pset():
    yield simpy.Timeout(core,0.033); core.set_param('n1/k',7.0)
    yield simpy.Timeout(core,0.02); core.set_param('logger/dt',0.01)
simpy.Process(core,pset())
try:
    pubs['a'].publish(msgs.Mag())
except ValueError as e: print('type rejected:',str(e)[:60])
core.run(until=0.1)
print(len(log), log[:6])
print(n1.seen, n2.seen)
arr=lg.get_log_as_array(); print(len(arr), arr['time'][:12], arr['a']['gyro'][:6,0], arr['c']['gyro'][:6,0])
try:
    uros.Publisher(core,'late',msgs.Imu)
except AssertionError: print('locked ok')
