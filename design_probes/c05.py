import numpy as np, casadi as ca, io, contextlib
from scipy.linalg import expm, logm
from cyecca.lie import *
rng=np.random.default_rng(3)
def D(x): return np.array(ca.DM(x))
def unit(n): v=rng.normal(size=n); return v/np.linalg.norm(v)
def Mg(G,x): return expm(D(G.algebra.elem(ca.DM(x)).to_Matrix()))
def vee_fac(a):
    N=a.n_param
    Bm=np.stack([D(a.elem(ca.DM(np.eye(N)[i])).to_Matrix()).ravel() for i in range(N)],axis=1)
    return lambda Mat: np.linalg.lstsq(Bm, Mat.ravel(), rcond=None)[0]
for n,(a,G) in dict(so3=(so3,SO3Quat),se3=(se3,SE3Quat),se23=(se23,SE23Quat)).items():
    N=a.n_param; vee=vee_fac(a)
    for ang in [0,1e-4,0.03,0.5,2,3.1,4,6]:
        x=np.r_[rng.normal(size=N-3), unit(3)*ang]
        xe=a.elem(ca.DM(x))
        Jl=D(xe.left_jacobian()); Jr=D(xe.right_jacobian()); Jli=D(xe.left_jacobian_inv()); Jri=D(xe.right_jacobian_inv())
        # numeric Jl: exp(x+d) exp(x)^-1 = exp(Jl d)
        h=1e-6; Jln=np.zeros((N,N)); Jrn=np.zeros((N,N))
        E0=Mg(G,x)
        for i in range(N):
            d=np.zeros(N); d[i]=h
            Ep=Mg(G,x+d); Em=Mg(G,x-d)
            Jln[:,i]=(vee(np.real(logm(Ep@np.linalg.inv(E0))))-vee(np.real(logm(Em@np.linalg.inv(E0)))))/(2*h)
            Jrn[:,i]=(vee(np.real(logm(np.linalg.inv(E0)@Ep)))-vee(np.real(logm(np.linalg.inv(E0)@Em))))/(2*h)
        Ad=D(xe.exp(G).Ad()) if n!='se3' else expm(D(xe.ad()))
        print(n,ang,f'Jl {np.abs(Jl-Jln).max():.1e} Jr {np.abs(Jr-Jrn).max():.1e} JlJli {np.abs(Jl@Jli-np.eye(N)).max():.1e} JrJri {np.abs(Jr@Jri-np.eye(N)).max():.1e} Jl=AdJr {np.abs(Jl-Ad@Jr).max():.1e} Jl=Jr(-x) {np.abs(Jl-D((-xe).right_jacobian())).max():.1e}')
# group-level jacobians
for k in range(3):
    q=unit(4); w=rng.normal(size=3)
    Q=SO3Quat.elem(ca.DM(q))
    JL=D(Q.left_jacobian()); JR=D(Q.right_jacobian())
    qs=ca.SX.sym('q',4); Rf=ca.Function('R',[qs],[SO3Quat.elem(qs).to_Matrix()])
    JRm=ca.Function('J',[qs],[ca.jacobian(ca.vec(SO3Quat.elem(qs).to_Matrix()),qs)])
    Rdot=lambda J: (D(JRm(q))@(J@w)).reshape(3,3,order='F')
    R=D(Rf(q)); W=D(so3.elem(ca.DM(w)).to_Matrix())
    print('quat left: R\'=[w]R', np.abs(Rdot(JL)-W@R).max(), 'right: R\'=R[w]', np.abs(Rdot(JR)-R@W).max(), 'norm pres', abs(q@(JL@w)), abs(q@(JR@w)))
    r=rng.normal(size=3)*rng.choice([0.3,1.2])
    rs=ca.SX.sym('r',3)
    JRm=ca.Function('J',[rs],[ca.jacobian(ca.vec(SO3Mrp.elem(rs).to_Matrix()),rs)])
    R=D(SO3Mrp.elem(ca.DM(r)).to_Matrix()); B=D(SO3Mrp.elem(ca.DM(r)).right_jacobian())
    print('mrp right', np.abs((D(JRm(r))@(B@w)).reshape(3,3,order='F')-R@W).max())
