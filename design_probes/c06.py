import numpy as np, casadi as ca, mpmath as mp
from cyecca.lie import *
mp.mp.dps=50
rng=np.random.default_rng(4)
def D(x): return np.array(ca.DM(x))
def unit(n): v=rng.normal(size=n); return v/np.linalg.norm(v)
def mpM(A): return mp.matrix(A.tolist())
def Jl_ref(adm, K=60):
    N=adm.rows; S=mp.eye(N); T=mp.eye(N)
    for k in range(1,K):
        T=T*adm/(k+1); S=S+T
    return S
def tof(Mm): return np.array([[float(Mm[i,j]) for j in range(Mm.cols)] for i in range(Mm.rows)])
thetas=[0,5e-324,1e-200,1e-20,1e-8,1e-5,5e-4,9.999e-4,1e-3,1.0001e-3,2e-3,0.01,0.0316,0.031622,0.0316227766,0.031623,0.0317,0.0632,0.06325,0.1,0.3,1.0]
for n,(a,G) in dict(so3=(so3,SO3Quat),se3=(se3,SE3Quat),se23=(se23,SE23Quat)).items():
    N=a.n_param
    worst={}
    for th in thetas:
        for rep in range(5):
            x=np.r_[rng.uniform(-1,1,size=N-3), unit(3)*th]
            xe=a.elem(ca.DM(x))
            adm=mpM(D(xe.ad())); Xm=mpM(D(xe.to_Matrix()))
            JL=Jl_ref(adm); JLi=JL**-1
            errs=dict(Jl=np.abs(D(xe.left_jacobian())-tof(JL)).max(), Jli=np.abs(D(xe.left_jacobian_inv())-tof(JLi)).max(),
                      Jr=np.abs(D(xe.right_jacobian())-tof(Jl_ref(-adm))).max(), Jri=np.abs(D(xe.right_jacobian_inv())-tof(Jl_ref(-adm)**-1)).max())
            for GG,nm in ((G,'q'),):
                E=D(xe.exp(GG).to_Matrix()); errs['exp']=np.abs(E-tof(mp.expm(Xm))).max()
                errs['logexp']=np.abs(D(xe.exp(GG).log().param).ravel()-x).max()
            for k,v in errs.items():
                if not np.isfinite(v): v=np.inf
                if v>worst.get(k,(0,0))[0]: worst[k]=(v,th)
    print(n,{k:(f'{v[0]:.1e}',v[1]) for k,v in worst.items()})
