import numpy as np, casadi as ca, mpmath as mp
from cyecca.models import rdd2
from cyecca.lie import *
mp.mp.dps=40
rng=np.random.default_rng(6)
f=rdd2.derive_strapdown_ins_propagation()['strapdown_ins_propagate']
print(f)
def D(x): return np.array(ca.DM(x))
def unit(n): v=rng.normal(size=n); return v/np.linalg.norm(v)
def exact(x0,a,w,g,dt):
    p0=mp.matrix(x0[0:3].tolist()); v0=mp.matrix(x0[3:6].tolist()); q=x0[6:10]
    R0=mp.matrix(D(SO3Quat.elem(ca.DM(q)).to_Matrix()).tolist())
    W=mp.matrix([[0,-w[2],w[1]],[w[2],0,-w[0]],[-w[1],w[0],0]]); am=mp.matrix(a.tolist()); e3=mp.matrix([0,0,1])
    dt=mp.mpf(dt); g=mp.mpf(g)
    S1=mp.zeros(3); S2=mp.zeros(3); T=mp.eye(3)  # T=W^k t^k/k!
    for k in range(80):
        S1+=T*dt/(k+1); S2+=T*dt*dt/((k+1)*(k+2)); T=T*W*dt/(k+1)
    R1=R0*mp.expm(W*dt)
    v1=v0+R0*S1*am-g*e3*dt
    p1=p0+v0*dt+R0*S2*am-g*e3*dt*dt/2
    return np.array([float(z) for z in p1]),np.array([float(z) for z in v1]),np.array([[float(R1[i,j]) for j in range(3)] for i in range(3)])
worst=0
for wm in [0,1e-6,1e-3,0.03,0.0317,1,10,50]:
  for dt in [0,1e-3,0.01,0.5,2.0]:
    x0=np.r_[rng.normal(size=6)*3, unit(4)]; a=rng.normal(size=3)*10; w=unit(3)*wm; g=9.8
    x1=D(f(x0,a,w,g,dt)).ravel()
    p1,v1,R1=exact(x0,a,w,g,dt)
    R=D(SO3Quat.elem(ca.DM(x1[6:])).to_Matrix())
    e=max(np.abs(x1[0:3]-p1).max(),np.abs(x1[3:6]-v1).max(),np.abs(R-R1).max(),abs(np.linalg.norm(x1[6:])-1))
    worst=max(worst,e)
    if e>1e-9: print('wm',wm,'dt',dt,'err p',np.abs(x1[0:3]-p1).max(),'v',np.abs(x1[3:6]-v1).max(),'R',np.abs(R-R1).max())
print('worst',worst)
# semigroup
x0=np.r_[rng.normal(size=6)*3, unit(4)]; a=rng.normal(size=3)*10; w=unit(3)*3
xa=D(f(D(f(x0,a,w,9.8,0.3)).ravel(),a,w,9.8,0.45)).ravel(); xb=D(f(x0,a,w,9.8,0.75)).ravel()
print('semigroup',np.abs(xa-xb).max(), 'dt0', np.abs(D(f(x0,a,w,9.8,0)).ravel()-x0).max())
