import numpy as np, casadi as ca, io, contextlib
with contextlib.redirect_stdout(io.StringIO()):
    from cyecca.models import rdd2, rdd2_loglinear, bezier, mr_ref_traj
    from cyecca.lie import *
rng=np.random.default_rng(21)
def D(x): return np.array(ca.DM(x))
def unit(n): v=rng.normal(size=n); return v/np.linalg.norm(v)
fref=bezier.derive_ref()['f_ref']; mr=mr_ref_traj.derive_mr_ref_traj()['mr_ref_traj']
z3=np.zeros(3)
def chk(name,psi,a):
    o=fref(psi,0,0,z3,a,z3,z3); q=D(o[1]).ravel(); o2=mr(psi,0,0,z3,a,z3,z3,2.0,9.8,0.0216666,0.0216666,0.04,0); C=D(o2[1])
    print(name,'|q|',np.linalg.norm(q),'C orth',np.abs(C.T@C-np.eye(3)).max(),'det',np.linalg.det(C),'T',float(o[5]), 'finite', np.all(np.isfinite(q)) and np.all(np.isfinite(C)))
chk('generic',0.3,np.array([1,2,3.]))
chk('zero thrust',0.3,np.array([0,0,9.8]))
chk('tiny thrust',0.3,np.array([0,0,9.8-1e-7]))
chk('thrust ∥ heading psi=0',0.0,np.array([-5.,0,9.8]))
chk('thrust ∥ heading psi=1',1.0,np.array([-5*np.cos(1.0),-5*np.sin(1.0),9.8]))
chk('inverted',0.3,np.array([0,0,20.]))
# auto level at gimbal poles
al=rdd2.derive_input_auto_level()['input_auto_level']
for pitch in [np.pi/2,-np.pi/2,1.0]:
    for yaw,roll in [(1.0,2.0),(0.7,-0.4)]:
        q=D(SO3Quat.from_Euler(SO3EulerB321.elem(ca.DM([yaw,pitch,roll]))).param).ravel()
        qr,th=[D(o).ravel() for o in al(20,10,np.array([0.2,-0.3,0.1,0.5]),q)]
        print('auto_level pitch',pitch,'q_r',qr,'|q_r|',np.linalg.norm(qr))
# se23 attitude control zero at same
se=rdd2_loglinear.derive_se23_error()['se23_error']; oc=rdd2_loglinear.derive_outerloop_control(); sac=oc['se23_attitude_control']
for s in [1,-1]:
    q=unit(4); p=rng.normal(size=3); v=rng.normal(size=3)
    zeta=D(se(p,v,q,p,v,s*q)).ravel(); om=D(sac(np.array([5,5,2.]),zeta)).ravel()
    print('se23 same pose sign',s,'zeta max',np.abs(zeta).max(),'omega',np.abs(om).max())
