import numpy as np, casadi as ca, io, contextlib
with contextlib.redirect_stdout(io.StringIO()):
    from cyecca.models import rdd2, rdd2_loglinear, bezier, mr_ref_traj
    from cyecca.lie import *
rng=np.random.default_rng(10)
def D(x): return np.array(ca.DM(x))
def unit(n): v=rng.normal(size=n); return v/np.linalg.norm(v)
pc=rdd2.derive_position_control()['position_control']
def Rq(q): return D(SO3Quat.elem(ca.DM(q)).to_Matrix())
def yawq(psi): return np.array([np.cos(psi/2),0,0,np.sin(psi/2)])
w=0; wz=0; wy=0
for k in range(5000):
    trim=rng.choice([2.24*9.8, rng.uniform(0,30)])
    pt=rng.normal(size=3)*3; vt=rng.normal(size=3); at=rng.normal(size=3)*rng.choice([0,1,5]); p=rng.normal(size=3)*3; v=rng.normal(size=3)*2
    psi=rng.uniform(-np.pi,np.pi); zi=rng.normal()
    nT,q,zi2=[D(o).ravel() for o in pc(trim,pt,vt,at,yawq(psi),p,v,zi,0.01)]
    R=Rq(q)
    w=max(w,abs(np.linalg.norm(q)-1))
    # demanded force
    pterm=-1.0*(p-pt)-2.0*(v-vt)+2.24*at; n=np.linalg.norm(pterm); 
    if n>0.3*2.24*9.8: pterm=pterm*0.3*2.24*9.8/n
    T=pterm+np.array([0,0,trim+0.05*zi])
    if np.linalg.norm(T)>1e-2:
        wz=max(wz,np.abs(R[:,2]-T/np.linalg.norm(T)).max(), abs(nT[0]-np.linalg.norm(T)))
        wy=max(wy,abs(R[:,1]@np.array([np.cos(psi),np.sin(psi),0])))
print('generic: unit',w,'zB/nT',wz,'yB.xC',wy)
# degenerate: thrust parallel to heading: trim=0, pterm along xC horizontally
for psi in [0,0.7,np.pi/2,3.0]:
    for eps in [0,1e-4,5e-4,2e-3]:
        xC=np.array([np.cos(psi),np.sin(psi),0]); d=xC+eps*np.array([0,0,1.])
        # pterm = -kp*(p-pt) → choose p-pt = -d
        nT,q,zi2=[D(o).ravel() for o in pc(0.0,d*1.0,np.zeros(3),np.zeros(3),yawq(psi),np.zeros(3),np.zeros(3),0,0.01)]
        R=Rq(q); print('psi',psi,'eps',eps,'q',q,'|q|',np.linalg.norm(q),'orth',np.abs(R.T@R-np.eye(3)).max() if np.all(np.isfinite(R)) else 'nan')
# near zero thrust
nT,q,zi2=[D(o).ravel() for o in pc(0.0,np.zeros(3),np.zeros(3),np.zeros(3),yawq(0.3),np.zeros(3),np.zeros(3),0,0.01)]
print('zero thrust',nT,q)
nT,q,zi2=[D(o).ravel() for o in pc(0.0,np.array([0,0,5e-4]),np.zeros(3),np.zeros(3),yawq(0.3),np.zeros(3),np.zeros(3),0,0.01)]
print('tiny thrust',nT,q,np.linalg.norm(q))
