import numpy as np, casadi as ca
import cyecca.util as util
rng=np.random.default_rng(7)
def D(x): return np.array(ca.DM(x))
for n in [1,2,3,4,6]:
    W=ca.SX.sym('W',ca.Sparsity.lower(n)); F=ca.SX.sym('F',n,n); Q=ca.SX.sym('Q',n,n)
    try:
        Wd=util.sqrt_covariance_predict(W,F,Q)
        f=ca.Function('f',[W,F,Q],[Wd])
        worst=0; wt=0
        for k in range(20):
            Wn=np.tril(rng.normal(size=(n,n))); Wn[np.diag_indices(n)]=rng.uniform(0.5,2,size=n)*rng.choice([1,-1] ,size=n)
            Fn=rng.normal(size=(n,n)); A=rng.normal(size=(n,n)); Qn=A@A.T
            Wdn=D(f(ca.DM(Wn),Fn,Qn))
            P=Wn@Wn.T
            lhs=Wdn@Wn.T+Wn@Wdn.T; rhs=Fn@P+P@Fn.T+Qn
            worst=max(worst,np.abs(lhs-rhs).max()); wt=max(wt,np.abs(np.triu(Wdn,1)).max())
        print('predict n',n,'ident',worst,'upper',wt)
    except Exception as e:
        print('predict n',n,'EXC',repr(e)[:200])
    for m in [1,2,3]:
        if m>n+2: continue
        Rs=ca.SX.sym('Rs',m,m); H=ca.SX.sym('H',m,n); W=ca.SX.sym('W',ca.Sparsity.lower(n))
        try:
            Wp,K,Ss=util.sqrt_correct(Rs,H,W)
            f=ca.Function('f',[Rs,H,W],[Wp,K,Ss])
            w=0
            for k in range(20):
                Wn=np.tril(rng.normal(size=(n,n))); Wn[np.diag_indices(n)]=rng.uniform(0.5,2,size=n)
                Hn=rng.normal(size=(m,n)); Rsn=np.tril(rng.normal(size=(m,n if False else m))); Rsn[np.diag_indices(m)]=rng.uniform(0.5,2,size=m)
                Wpn,Kn,Ssn=[D(z) for z in f(Rsn,Hn,Wn)]
                P=Wn@Wn.T; S=Hn@P@Hn.T+Rsn@Rsn.T; Kr=P@Hn.T@np.linalg.inv(S)
                w=max(w,np.abs(Kn-Kr).max(),np.abs(Ssn@Ssn.T-S).max(),np.abs(Wpn@Wpn.T-(np.eye(n)-Kr@Hn)@P).max(),np.abs(np.triu(Wpn,1)).max())
            print(' correct n',n,'m',m,'worst',w)
        except Exception as e: print(' correct n',n,'m',m,'EXC',repr(e)[:150])
for n in [1,2,3,5]:
    P=ca.SX.sym('P',n,n)
    L,Dg=util.ldl_symmetric_decomposition(P); U,Du=util.udu_symmetric_decomposition(P)
    f=ca.Function('f',[P],[L,Dg,U,Du])
    A=rng.normal(size=(n,n)); Pn=A@A.T+np.eye(n)
    Ln,Dn,Un,Dun=[D(z) for z in f(Pn)]
    print('ldl n',n,np.abs(Ln@Dn@Ln.T-Pn).max(),'unit',np.abs(np.diag(Ln)-1).max(),'udu',np.abs(Un@Dun@Un.T-Pn).max(),np.abs(np.diag(Un)-1).max(), 'triu/l', np.abs(np.triu(Ln,1)).max(), np.abs(np.tril(Un,-1)).max())
# rk4 exact on cubic
t=ca.SX.sym('t'); y=ca.SX.sym('y',2); h=ca.SX.sym('h')
c=rng.normal(size=(2,4))
fdot=lambda t,y: ca.vertcat(*[c[i,0]+c[i,1]*t+c[i,2]*t**2+c[i,3]*t**3 for i in range(2)])
y1=util.rk4(fdot,t,y,h); fr=ca.Function('r',[t,y,h],[y1])
t0=0.3;h0=0.7;y0=np.array([1.,2.])
ex=y0+np.array([sum(c[i,k]*((t0+h0)**(k+1)-t0**(k+1))/(k+1) for k in range(4)) for i in range(2)])
print('rk4 cubic',np.abs(D(fr(t0,y0,h0)).ravel()-ex).max())
