import numpy as np, casadi as ca, io, contextlib, subprocess, struct, time
with contextlib.redirect_stdout(io.StringIO()):
    from cyecca.models import rdd2
eqs={}
for fn in ['derive_attitude_rate_control','derive_attitude_control','derive_position_control','derive_input_acro','derive_input_auto_level','derive_input_velocity','derive_strapdown_ins_propagation','derive_control_allocation','derive_common']:
    eqs.update(getattr(rdd2,fn)())
funcs=list(eqs.values()); names=[f.name() for f in funcs]
rng=np.random.default_rng(0)
cases=[]; buf=bytearray()
for it in range(3000):
    k=rng.integers(len(funcs)); f=funcs[k]
    mode=rng.choice(['rand','zero','huge','nan'],p=[0.7,0.15,0.1,0.05])
    ins=[]
    for i in range(f.n_in()):
        n=f.nnz_in(i)
        v=rng.normal(size=n)*10**rng.uniform(-3,2) if mode=='rand' else np.zeros(n) if mode=='zero' else rng.normal(size=n)*1e150 if mode=='huge' else np.where(rng.random(n)<0.3,np.nan,rng.normal(size=n))
        ins.append(v)
    cases.append((k,ins)); buf+=struct.pack('i',int(k))
    for v in ins: buf+=v.astype('<f8').tobytes()
t=time.time()
r=subprocess.run(['./gen/rdd2_asan'],input=bytes(buf),capture_output=True,env={'ASAN_OPTIONS':'halt_on_error=1:abort_on_error=1:detect_leaks=1','UBSAN_OPTIONS':'halt_on_error=1:print_stacktrace=1'})
print('rc',r.returncode,'stderr',r.stderr[:500],'time',time.time()-t)
out=np.frombuffer(r.stdout,dtype='<f8'); pos=0; worst=0; mism=0; nanpat=0
for k,ins in cases:
    f=funcs[k]; ref=f(*ins); ref=[ref] if not isinstance(ref,(list,tuple)) else ref
    for j,o in enumerate(ref):
        n=f.nnz_out(j); c=out[pos:pos+n]; pos+=n
        rv=np.array(o.nonzeros())
        nanr=np.isnan(rv); nanc=np.isnan(c)
        if not np.array_equal(nanr,nanc): nanpat+=1; continue
        m=~nanr
        if m.any():
            with np.errstate(invalid='ignore'):
                d=np.abs(c[m]-rv[m]); d=np.where(np.isinf(c[m])&np.isinf(rv[m])&(c[m]==rv[m]),0,d)
            e=np.nanmax(d/np.maximum(1,np.abs(rv[m]))) if d.size else 0
            worst=max(worst,e)
            if e>1e-12: mism+=1
print('consumed',pos,len(out),'worst rel',worst,'mismatch',mism,'nan pattern diffs',nanpat)
