import numpy as np, casadi as ca, mpmath as mp, io, contextlib
from cyecca.lie import *
from cyecca.lie.group_se3 import SE3LieGroup
from cyecca.lie.group_se23 import SE23LieGroup
mp.mp.dps=50
rng=np.random.default_rng(30)
def D(x): return np.array(ca.DM(x))
def unit(n): v=rng.normal(size=n); return v/np.linalg.norm(v)
def tof(Mm): return np.array([[float(Mm[i,j]) for j in range(Mm.cols)] for i in range(Mm.rows)])
# AD derivative finiteness at/near zero for every function
fns={}
def reg(name,nin,build):
    x=ca.SX.sym('x',nin)
    with contextlib.redirect_stdout(io.StringIO()):
        out=build(x)
    fns[name]=ca.Function(name,[x],[out,ca.jacobian(out,x)])
for gname,G in dict(Quat=SO3Quat,Mrp=SO3Mrp,Dcm=SO3Dcm,Euler=SO3EulerB321).items():
    reg('so3exp_'+gname,3,lambda x,G=G: so3.elem(x).exp(G).param)
    reg('so3logexp_'+gname,3,lambda x,G=G: so3.elem(x).exp(G).log().param)
for nm,meth in [('Jl','left_jacobian'),('Jli','left_jacobian_inv'),('Jr','right_jacobian'),('Jri','right_jacobian_inv')]:
    reg('so3'+nm,3,lambda x,meth=meth: ca.vec(getattr(so3.elem(x),meth)()))
    reg('se3'+nm,6,lambda x,meth=meth: ca.vec(ca.densify(getattr(se3.elem(x),meth)())))
    reg('se23'+nm,9,lambda x,meth=meth: ca.vec(ca.densify(getattr(se23.elem(x),meth)())))
for gname,G in dict(SE3Quat=SE3Quat,SE3Mrp=SE3Mrp).items():
    reg(gname+'exp',6,lambda x,G=G: se3.elem(x).exp(G).param); reg(gname+'logexp',6,lambda x,G=G: se3.elem(x).exp(G).log().param)
for gname,G in dict(SE23Quat=SE23Quat,SE23Mrp=SE23Mrp).items():
    reg(gname+'exp',9,lambda x,G=G: se23.elem(x).exp(G).param); reg(gname+'logexp',9,lambda x,G=G: se23.elem(x).exp(G).log().param)
reg('SE2exp',3,lambda x: se2.elem(x).exp(SE2).param); reg('SE2logexp',3,lambda x: se2.elem(x).exp(SE2).log().param)
bad={}
for name,F in fns.items():
    n=F.size1_in(0)
    for th in [0,5e-324,1e-300,1e-200,1e-160,1e-100,1e-20,1e-8,1e-4,0.0316,0.03163,1e-3,1.001e-3,0.1,1.0]:
        for rep in range(3):
            if name in ('SE2exp','SE2logexp'): x=np.r_[rng.uniform(-1,1,size=2),th]
            elif n>3: x=np.r_[rng.uniform(-1,1,size=n-3), unit(3)*th]
            else: x=unit(3)*th
            v,J=F(x); v=D(v);J=D(J)
            if not (np.all(np.isfinite(v)) and np.all(np.isfinite(J))):
                bad.setdefault(name,[]).append((th,'val' if not np.all(np.isfinite(v)) else 'jac'))
print('non-finite:',{k:sorted(set(v))[:8] for k,v in bad.items()})
