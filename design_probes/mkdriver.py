import sys
names=sys.argv[1].split(',')
out=['#include <stdio.h>','#include <stdlib.h>','#include <string.h>','typedef long long int casadi_int;','typedef double casadi_real;']
for n in names:
    out.append(f'int {n}(const casadi_real** arg, casadi_real** res, casadi_int* iw, casadi_real* w, int mem);')
    out.append(f'int {n}_work(casadi_int*, casadi_int*, casadi_int*, casadi_int*);')
    out.append(f'casadi_int {n}_n_in(void); casadi_int {n}_n_out(void);')
    out.append(f'const casadi_int* {n}_sparsity_in(casadi_int); const casadi_int* {n}_sparsity_out(casadi_int);')
out.append('typedef struct {const char* name; int (*f)(const casadi_real**, casadi_real**, casadi_int*, casadi_real*, int); int (*work)(casadi_int*,casadi_int*,casadi_int*,casadi_int*); casadi_int (*n_in)(void); casadi_int (*n_out)(void); const casadi_int* (*sp_in)(casadi_int); const casadi_int* (*sp_out)(casadi_int);} fn_t;')
out.append('static fn_t T[]={'+','.join(f'{{"{n}",{n},{n}_work,{n}_n_in,{n}_n_out,{n}_sparsity_in,{n}_sparsity_out}}' for n in names)+'};')
out.append(r'''
static casadi_int nnz(const casadi_int* sp){ casadi_int nc=sp[1]; if(sp[2]==1) return sp[0]*sp[1]; /* dense flag */ return sp[2+nc]; }
int main(int argc,char**argv){
  int nf=sizeof(T)/sizeof(T[0]);
  if(argc>1 && !strcmp(argv[1],"--describe")){
    for(int k=0;k<nf;k++){ printf("%s %lld %lld",T[k].name,T[k].n_in(),T[k].n_out());
      for(casadi_int i=0;i<T[k].n_in();i++){const casadi_int*s=T[k].sp_in(i); printf(" i:%lldx%lld:%lld",s[0],s[1],nnz(s));}
      for(casadi_int i=0;i<T[k].n_out();i++){const casadi_int*s=T[k].sp_out(i); printf(" o:%lldx%lld:%lld",s[0],s[1],nnz(s));}
      printf("\n"); }
    return 0; }
  int k; 
  while(fread(&k,sizeof(int),1,stdin)==1){
    fn_t*t=&T[k]; casadi_int sa,sr,si,sw; t->work(&sa,&sr,&si,&sw);
    casadi_int ni=t->n_in(), no=t->n_out();
    const casadi_real** arg=malloc(sizeof(*arg)*(sa>0?sa:1)); casadi_real** res=malloc(sizeof(*res)*(sr>0?sr:1));
    casadi_int* iw=malloc(sizeof(*iw)*(si>0?si:1)); casadi_real* w=malloc(sizeof(*w)*(sw>0?sw:1));
    casadi_real** in=malloc(sizeof(*in)*ni); casadi_real** ou=malloc(sizeof(*ou)*no);
    for(casadi_int i=0;i<ni;i++){casadi_int n=nnz(t->sp_in(i)); in[i]=malloc(sizeof(casadi_real)*(n>0?n:1)); if(n&&fread(in[i],sizeof(casadi_real),n,stdin)!=(size_t)n) return 3; arg[i]=in[i];}
    for(casadi_int i=0;i<no;i++){casadi_int n=nnz(t->sp_out(i)); ou[i]=malloc(sizeof(casadi_real)*(n>0?n:1)); res[i]=ou[i];}
    int rc=t->f(arg,res,iw,w,0); if(rc) return 4;
    for(casadi_int i=0;i<no;i++){casadi_int n=nnz(t->sp_out(i)); fwrite(ou[i],sizeof(casadi_real),n,stdout); free(ou[i]);}
    for(casadi_int i=0;i<ni;i++) free(in[i]);
    free(in);free(ou);free(arg);free(res);free(iw);free(w);
  }
  return 0; }''')
print('\n'.join(out))
