import numpy as np, casadi as ca, io, contextlib
with contextlib.redirect_stdout(io.StringIO()):
    from cyecca.models import rdd2
f=rdd2.derive_control_allocation()['f_alloc']; print(f)
rng=np.random.default_rng(9)
def D(x): return np.array(ca.DM(x)).ravel()
def fwd(F,l,Cm): 
    B=np.array([[1,1,1,1],[-l,l,l,-l],[-l,l,-l,l],[-Cm,-Cm,Cm,Cm]]); return B@F
cnt={}; bad=[]
for k in range(200000):
    Fmax=10**rng.uniform(-1,2); l=10**rng.uniform(-1.5,0.5); Cm=10**rng.uniform(-2.5,0); Ct=10**rng.uniform(-7,-4)
    T=rng.choice([rng.uniform(-1,5)*Fmax, rng.uniform(0,4)*Fmax, 1e3*Fmax, 4*Fmax, 0])
    M=rng.normal(size=3)*np.array([l,l,Cm])*Fmax*10**rng.uniform(-3,1.5)*rng.choice([0,1],size=3,p=[0.2,0.8])
    om,Fp,Fm,Ft,Ms=[D(o) for o in f(Fmax,l,Cm,Ct,T,M)]
    if not (np.all(np.isfinite(om)) and np.all(om>=0) and np.all(Fp>=0) and np.all(Fp<=Fmax)): bad.append(('range',Fmax,l,Cm,T,M,Fp))
    Tsat=min(max(T,0),4*Fmax)
    Fs=Fm+Ft; spread=Fm.max()-Fm.min()
    tol=1e-9*Fmax
    real=fwd(Fp,l,Cm)
    if Fs.max()<=Fmax and Fs.min()>=0:
        cls='joint'
        if np.abs(Fp-Fs).max()>tol: bad.append(('joint',Fmax,l,Cm,T,M,Fp,Fs))
    elif spread<=Fmax*(1-1e-12):
        cls='moment-ok'
        if np.abs(real[1:]-Ms).max()>1e-9*Fmax*max(l,Cm,1): bad.append(('moment',Fmax,l,Cm,T,M,Fp,real,Ms))
        # least shift
        shift=real[0]-Tsat
    else: cls='infeasible'
    cnt[cls]=cnt.get(cls,0)+1
print(cnt,len(bad)); print(bad[:3])
# exact boundary
print([D(o) for o in f(4,1,1,1e-5,12,[4,4,4])])
