import casadi as ca, numpy as np, time
from cyecca.lie import *
CMP={ca.OP_LT:'lt',ca.OP_LE:'le',ca.OP_EQ:'eq',ca.OP_NE:'ne'}
def find_cmp(exprs):
    seen={}; out=[]
    stack=[e for ex in exprs for e in ex.elements()]
    while stack:
        e=stack.pop()
        h=e.element_hash()
        if h in seen: continue
        seen[h]=1
        if e.is_symbolic() or e.is_constant(): continue
        op=e.op()
        if op in CMP: out.append(e)
        for i in range(e.n_dep()): stack.append(e.dep(i))
    return out,len(seen)
x=ca.SX.sym('x',6)
t=time.time()
X=se3.elem(x).exp(SE3Quat); L=X.log()
cm,n=find_cmp([L.param, X.param]); print('nodes',n,'cmps',len(cm),time.time()-t)
for c in cm: print(' ',str(c)[:100])
F=ca.Function('F',[x],[L.param,ca.vertcat(*cm)])
for th in [0,1e-4,0.02,0.04,0.5,3.5]:
    v=np.r_[1,2,3,np.array([1,0,0])*th]; o=F(v); print(th,np.array(o[1]).ravel())
x9=ca.SX.sym('x',9)
t=time.time(); J=se23.elem(x9).left_jacobian_inv(); cm,n=find_cmp([J]); print('se23 Jli nodes',n,'cmps',len(cm),time.time()-t)
