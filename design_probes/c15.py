import numpy as np, casadi as ca, io, contextlib
with contextlib.redirect_stdout(io.StringIO()):
    from cyecca.models import rdd2, rdd2_loglinear
    from cyecca.lie import *
rng=np.random.default_rng(12)
def D(x): return np.array(ca.DM(x))
def unit(n): v=rng.normal(size=n); return v/np.linalg.norm(v)
iv=rdd2.derive_input_velocity()['input_velocity']; print(iv)
psi=0.0; pw_sp=np.zeros(3); pw=np.zeros(3); mx=0; mpsi=0
for k in range(20000):
    aetr=rng.uniform(-1,1,size=4) if k%100 else np.array([1,1,1,1.])*rng.choice([-1,1])
    dt=rng.choice([0.01,0.1,1.0]); reset=float(rng.random()<0.01)
    pw=pw+rng.normal(size=3)*rng.choice([0.01,1,10])
    out=[D(o).ravel() for o in iv(dt,psi,pw_sp,pw,aetr,reset)]
    psi=out[0][0]; pw_sp=out[2]; q=out[5]
    mpsi=max(mpsi,abs(psi)); mx=max(mx,np.linalg.norm(pw_sp-pw))
    if reset and np.linalg.norm(pw_sp-pw)>0: print('reset not on vehicle')
    assert abs(np.linalg.norm(q)-1)<1e-12
print('max |psi|',mpsi,'<=pi',mpsi<=np.pi,'max leash',mx)
ac=rdd2.derive_attitude_control()['attitude_control']; so3ac=rdd2_loglinear.derive_so3_attitude_control()['so3_attitude_control']; se23e=rdd2_loglinear.derive_se23_error()['se23_error']
kp=np.array([5,5,2.])
w1=w2=0
for k in range(2000):
    q=unit(4); 
    for s in [1,-1]:
        om=D(ac(kp,q,s*q)).ravel(); w1=max(w1,np.abs(om).max() if np.all(np.isfinite(om)) else np.inf)
        om=D(so3ac(kp,q,s*q)).ravel(); w2=max(w2,np.abs(om).max() if np.all(np.isfinite(om)) else np.inf)
print('zero at same rotation: attitude_control',w1,'so3',w2)
# reach reference
w=0
for k in range(2000):
    q=unit(4); qr=unit(4)
    e=D(ac(np.ones(3),q,qr)).ravel()
    R=D((SO3Quat.elem(ca.DM(q))*so3.elem(ca.DM(e)).exp(SO3Quat)).to_Matrix()); Rr=D(SO3Quat.elem(ca.DM(qr)).to_Matrix())
    w=max(w,np.abs(R-Rr).max())
print('reach',w)
rc=rdd2.derive_attitude_rate_control()['attitude_rate_control']
i0=np.zeros(3);e0=np.zeros(3);de0=np.zeros(3); imax=np.array([0.5,0.2,0.0]); mi=0; amin=1;amax=0
for k in range(5000):
    dt=10**rng.uniform(-4,-1); fc=10**rng.uniform(-1,3)
    M,i1,e1,de1,alpha=[D(o).ravel() for o in rc(rng.uniform(0,1,3),rng.uniform(0,1,3),rng.uniform(0,0.2,3),fc,imax,rng.normal(size=3)*5,rng.normal(size=3)*5,i0,e0,de0,dt)]
    i0,e0,de0=i1,e1,de1; mi=max(mi,(np.abs(i1)-imax).max()); amin=min(amin,alpha[0]); amax=max(amax,alpha[0])
print('int excess',mi,'alpha range',amin,amax)
