import numpy as np, casadi as ca, io, contextlib
from scipy.linalg import expm
from cyecca.lie import *
rng = np.random.default_rng(2)
def M(X):
    with contextlib.redirect_stdout(io.StringIO()):
        return np.array(ca.DM(X.to_Matrix()))
def unit(n): v=rng.normal(size=n); return v/np.linalg.norm(v)
def V(x): return np.array(ca.DM(x)).ravel()
# SO3: principal log across reps
for ang in [0,1e-8,1e-3,0.5,2,3.0,3.1]:
    for sign in [1,-1]:
        w=unit(3)*ang
        q=np.r_[np.cos(ang/2), np.sin(ang/2)*(w/ang if ang>0 else np.zeros(3))]*sign
        Q=SO3Quat.elem(ca.DM(q))
        lq=V(Q.log().param)
        Rm=SO3Mrp.from_Quat(Q); lm=V(Rm.log().param)
        D=SO3Dcm.from_Quat(Q); ld=V(D.log().param)
        E=SO3EulerB321.from_Quat(Q); le=V(E.log().param)
        print(f'ang={ang} sign={sign}: quat err {np.abs(lq-w).max():.1e} mrp {np.abs(lm-w).max():.1e} dcm {np.abs(ld-w).max():.1e} euler {np.abs(le-w).max():.1e}  | exp(log) quat {np.abs(M(Q.log().exp(SO3Quat))-M(Q)).max():.1e}')
# shadow MRP
for ang in [0.5,2,3]:
    w=unit(3)*ang; r=np.tan(ang/4)*w/ang; rs=-r/np.dot(r,r)
    X=SO3Mrp.elem(ca.DM(rs)); l=V(X.log().param)
    print('shadow mrp ang',ang,'log angle',np.linalg.norm(l),'explog err',np.abs(M(X.log().exp(SO3Mrp))-M(X)).max())
# SE2/SE3/SE23 round trips
for n,G in dict(SE2=SE2,SE3Quat=SE3Quat,SE3Mrp=SE3Mrp,SE23Quat=SE23Quat,SE23Mrp=SE23Mrp).items():
    for ang in [0,1e-8,1e-3,0.5,2,3.0,3.1]:
        e1=e2=0
        for k in range(10):
            if G is SE2: x=np.r_[rng.normal(size=2)*2,ang*rng.choice([-1,1])]
            elif 'SE3' in n: x=np.r_[rng.normal(size=3)*2,unit(3)*ang]
            else: x=np.r_[rng.normal(size=6)*2,unit(3)*ang]
            xe=G.algebra.elem(ca.DM(x)); X=xe.exp(G)
            e1=max(e1,np.abs(V(X.log().param)-x).max())
            e2=max(e2,np.abs(M(X.log().exp(G))-M(X)).max())
        print(n,ang,f'log(exp(x))-x {e1:.1e}  exp(log X)-X {e2:.1e}')
