import numpy as np, casadi as ca, mpmath as mp, io, contextlib
from cyecca.lie import *
from cyecca.lie.group_se3 import SE3LieGroup
from cyecca.lie.group_se23 import SE23LieGroup
mp.mp.dps=50
rng=np.random.default_rng(31)
def D(x):
    with contextlib.redirect_stdout(io.StringIO()): return np.array(ca.DM(x))
def unit(n): v=rng.normal(size=n); return v/np.linalg.norm(v)
def tof(Mm): return np.array([[float(Mm[i,j]) for j in range(Mm.cols)] for i in range(Mm.rows)])
groups=dict(SO2=SO2,SE2=SE2,SO3Quat=SO3Quat,SO3Mrp=SO3Mrp,SO3Dcm=SO3Dcm,SO3Euler=SO3EulerB321,SE3Quat=SE3Quat,SE3Mrp=SE3Mrp,SE3Dcm=SE3LieGroup(SO3=SO3Dcm),SE3Euler=SE3LieGroup(SO3=SO3EulerB321),SE23Quat=SE23Quat,SE23Mrp=SE23Mrp,SE23Dcm=SE23LieGroup(SO3=SO3Dcm),SE23Euler=SE23LieGroup(SO3=SO3EulerB321))
thetas=np.r_[0,5e-324,10**np.linspace(-300,-3.2,40),np.nextafter(1e-3,0),1e-3,np.nextafter(1e-3,1),np.sqrt(1e-3)*np.array([1-1e-15,1-1e-9,1,1+1e-9,1+1e-15]),2*np.sqrt(1e-3)*np.array([1-1e-15,1,1+1e-15]),10**np.linspace(-3,0,60)]
for n,G in groups.items():
    a=G.algebra; N=a.n_param; w=dict(exp=(0,0),logexp=(0,0))
    x=ca.SX.sym('x',N)
    with contextlib.redirect_stdout(io.StringIO()):
        F=ca.Function('F',[x],[a.elem(x).exp(G).to_Matrix(), a.elem(x).exp(G).log().param, a.elem(x).to_Matrix()])
    for th in thetas:
        for rep in range(3):
            if N==1: xv=np.array([th])
            elif G is SE2: xv=np.r_[rng.uniform(-1,1,size=2),th*rng.choice([-1,1])]
            else: xv=np.r_[rng.uniform(-1,1,size=N-3),unit(3)*th]
            E,l,X=[D(o) for o in F(xv)]
            ref=tof(mp.expm(mp.matrix(X.tolist())))
            e1=np.abs(E-ref).max() if np.all(np.isfinite(E)) else np.inf
            e2=np.abs(l.ravel()-xv).max() if np.all(np.isfinite(l)) else np.inf
            if e1>w['exp'][0]: w['exp']=(e1,th)
            if e2>w['logexp'][0]: w['logexp']=(e2,th)
    print(n,{k:(f'{v[0]:.1e}',float(v[1])) for k,v in w.items()})
