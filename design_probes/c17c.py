import sys, json
exec(open('c17.py').read().split("rng=np.random.default_rng(14)")[0])
seed=int(sys.argv[1]); rng=np.random.default_rng(seed)
res=[]
def qmul(a,b): return np.array([a[0]*b[0]-a[1:]@b[1:], *(a[0]*b[1:]+b[0]*a[1:]+np.cross(a[1:],b[1:]))])
for psi0 in [0,0.3,0.6,1.0]:
  for mode in ['loglinear','mellinger']:
    x0=np.zeros(17); tgt=np.array([0,0,6.]); x0[0:3]=tgt+rng.uniform(-3,3,size=3); ang=rng.uniform(0.5,np.pi/3); a=rng.uniform(0,2*np.pi); ax=np.array([np.cos(a),np.sin(a),0])
    qt=np.r_[np.cos(ang/2),np.sin(ang/2)*ax]; s=rng.choice([-1,1]); qy=np.array([np.cos(psi0/2),0,0,s*np.sin(psi0/2)])
    x0[6:10]=qmul(qy,qt); x0[3:6]=rng.normal(size=3)*1.5; x0[10:13]=rng.normal(size=3)*1.5
    omh=np.sqrt(p[pi['m']]*p[pi['g']]/4/p[pi['CT']]); x0[13:]=omh*rng.uniform(0,1.3)
    h,st=run(x0,tgt,mode,tf=30,yaw=0.0)
    res.append((mode[:3],psi0,round(ang,2),round(float(np.linalg.norm(x0[:3]-tgt)),1), st if st!='ok' else round(float(h[-500:,1].max()),5)))
print(json.dumps(res))
