import numpy as np, simpy, io, contextlib, casadi as ca
with contextlib.redirect_stdout(io.StringIO()):
    import cyecca.sim.uros as uros, cyecca.sim.msgs as msgs
    from cyecca.estimate.attitude import algorithms
    from cyecca.estimate.attitude.estimator import AttitudeEstimator
eqs=algorithms.eqs()['mrp']
rng=np.random.default_rng(40)
calls=[]
cur={'t':None}
class Proxy(dict): pass
def wrap(name,f):
    def g(*a):
        calls.append((name,cur['t'],[float(x) if np.isscalar(x) else None for x in a][-1] if name=='predict' else None))
        return f(*a)
    return g
weqs={k:(wrap(k,v) if k in('predict','correct_accel','correct_mag','initialize') else v) for k,v in eqs.items()}
core=uros.Core()
pub_imu=uros.Publisher(core,'imu',msgs.Imu); pub_mag=uros.Publisher(core,'mag',msgs.Mag)
est=AttitudeEstimator(core,'mrp',weqs,True)
lg=uros.Logger(core); core.init_params()
core.set_param('mrp/dt_min_accel',0.02); core.set_param('mrp/dt_min_mag',0.05)
def hostile():
    t=0.0
    while True:
        # stamps: mostly increasing by small random steps, sometimes duplicate or backwards or bursts
        r=rng.random()
        if r<0.1: stamp=t            # duplicate
        elif r<0.2: stamp=t-rng.uniform(0,0.03)  # backwards
        else: t=t+rng.choice([1e-4,1e-3,0.005,0.011,0.05]); stamp=t
        m=msgs.Imu(); m.data['time']=stamp; m.data['gyro']=rng.normal(size=3)*0.1; m.data['accel']=np.array([0,0,-9.8])+rng.normal(size=3)*0.01
        cur['t']=stamp; pub_imu.publish(m)
        if rng.random()<0.4:
            mm=msgs.Mag(); ms=stamp+rng.uniform(-0.01,0.01); mm.data['time']=ms; mm.data['mag']=np.array([0.1,0,0.02])+rng.normal(size=3)*1e-3
            cur['t']=ms; pub_mag.publish(mm)
        yield simpy.Timeout(core,rng.choice([0,0.001,0.004]))
simpy.Process(core,hostile())
with contextlib.redirect_stdout(io.StringIO()):
    core.run(until=3.0)
pred=[c for c in calls if c[0]=='predict']; acc=[c[1] for c in calls if c[0]=='correct_accel']; mag=[c[1] for c in calls if c[0]=='correct_mag']
print('calls',{k:sum(1 for c in calls if c[0]==k) for k in ['initialize','predict','correct_accel','correct_mag']})
print('min predict dt',min(c[2] for c in pred))
print('min accel spacing',np.min(np.diff(acc)),'min mag spacing',np.min(np.diff(mag)))
