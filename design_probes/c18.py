import numpy as np, casadi as ca, io, contextlib
with contextlib.redirect_stdout(io.StringIO()):
    from cyecca.models import bezier
from math import comb
rng=np.random.default_rng(15)
def D(x): return np.array(ca.DM(x))
b7=bezier.derive_bezier7(); b3=bezier.derive_bezier3(); mr=bezier.derive_multirotor()
for k,v in {**b7,**b3,**mr}.items(): print(v)
# Bernstein check generic
w=0
for trial in range(200):
    n=rng.integers(1,9); m=rng.integers(1,4); P=rng.normal(size=(m,n+1)); T=rng.uniform(0.1,10); t=rng.uniform(-0.5,1.5)*T
    B=bezier.Bezier(ca.SX(ca.DM(P)),T)
    val=D(B.eval(t)).ravel()
    s=t/T; ref=sum(comb(n,i)*s**i*(1-s)**(n-i)*P[:,i] for i in range(n+1))
    w=max(w,np.abs(val-ref).max())
    for order in range(1,n+1):
        Bd=B.deriv(order); v=D(Bd.eval(t)).ravel()
        # exact derivative of Bernstein poly via numpy polynomial
        from numpy.polynomial import polynomial as Pn
        coefs=np.zeros((m,n+1))
        for i in range(n+1):
            # s^i (1-s)^(n-i)
            c=Pn.polymul(Pn.polypow([0,1],i) if i>0 else [1], Pn.polypow([1,-1],n-i) if n-i>0 else [1])*comb(n,i)
            coefs[:,:len(c)]+=np.outer(P[:,i],c)
        ref=np.array([Pn.polyval(s,Pn.polyder(coefs[j],order)) for j in range(m)])/T**order
        w=max(w,np.abs(v-ref).max()/max(1,np.abs(ref).max()))
print('bernstein/deriv worst rel',w)
# solvers
wp0=rng.normal(size=4); wp1=rng.normal(size=4); T=2.0
P7=D(b7['bezier7_solve'](wp0,wp1,T)); print('P7',P7)
P3=D(b3['bezier3_solve'](wp0[:2],wp1[:2],T)); print('P3',P3, 'traj0',D(b3['bezier3_traj'](0,T,P3)).ravel(),'trajT',D(b3['bezier3_traj'](T,T,P3)).ravel(), wp0[:2],wp1[:2])
