import numpy as np, casadi as ca, sympy as sp
from cyecca.symbolic import sympy_to_casadi, casadi_to_sympy
x,y,z=sp.symbols('x y z')
def s2c(expr, pt, **kw):
    try:
        e,syms=sympy_to_casadi(expr,**kw)
        names=sorted(syms); F=ca.Function('F',[syms[n] for n in names],[e])
        val=np.array(F(*[pt[n] for n in names])).ravel()
        ref=np.array(sp.Matrix([expr]).subs({sp.Symbol(k):v for k,v in pt.items()}).evalf(),dtype=float).ravel() if not isinstance(expr,sp.MatrixBase) else np.array(expr.subs({sp.Symbol(k):v for k,v in pt.items()}).evalf(),dtype=float).ravel(order='F')
        return float(np.abs(val-ref).max()), val[:3], ref[:3]
    except Exception as ex: return 'EXC',repr(ex)[:100]
pt={'x':0.7,'y':-1.3,'z':2.1}
tests={'neg float':sp.Float(-0.5)*x,'float add':x+sp.Float(0.25),'int-valued float':sp.Float(3.0)*x,'pow -1/2':x**sp.Rational(-1,2),'pow -2':y**-2,'pow neg base int':y**3,'sqrt nested':sp.sqrt(x+z)*sp.sqrt(z),
 'cse':(sp.sin(x+y)**2+sp.cos(x+y)+sp.sin(x+y)*z), 'rational big':sp.Rational(123456789,1000)*x, 'half':sp.Rational(1,2)*x, 'x**x':x**z, 'nested':sp.atan(sp.tan(x)*sp.cos(y)/(z+x**2)), 'mul const only':sp.Integer(2)*sp.Rational(3,4), 'tan':sp.tan(y)}
for k,e in tests.items():
    print(k,'plain',s2c(e,pt),'| cse',s2c(e,pt,cse=True) if k in('cse','nested','sqrt nested') else '')
M=sp.Matrix([[x*y, sp.sin(z)],[sp.Rational(1,3), x**2]])
print('matrix',s2c(M,pt))
M2=sp.ImmutableMatrix([[x,y]]); print('immutable matrix',s2c(M2,pt))
# symbols table pop after cse
e,syms=sympy_to_casadi(sp.sin(x+y)**2+sp.cos(x+y),cse=True); print('symbols after cse',list(syms))
# casadi->sympy matrix and repeated symbol
a=ca.SX.sym('a',2,2); s=casadi_to_sympy(a@a); print(s)
b=ca.SX.sym('b'); s=casadi_to_sympy(ca.if_else(b>0,ca.sqrt(b),b**2)); print(s, s.subs({sp.Symbol('b'):-2.0}) if hasattr(s,'subs') else '')
