#!/venv/bin/python
"""regenerate MANIFEST.json from the table below (only checks whose module exists are claimed)"""
import json
import os

V = os.path.dirname(os.path.dirname(os.path.abspath(__file__)))

TRUST = "trusted base: CPython, numpy/scipy/mpmath oracles, CasADi SX virtual machine, icontract; "

CHECKS = {
    "C01": ("differential runtime monitoring against an independent matrix oracle; icontract post-conditions on the real group methods; branch-cell coverage measured",
            "Runs the real product/inverse/identity/to_Matrix/from_Matrix code of every group configuration (16 base groups incl. SE3/SE23 on Dcm/Euler, plus direct products incl. nested and triples) on 10^4-10^6 random and boundary elements per configuration and compares oracle matrices (product, two-sided inverse, identity neutrality, associativity, from_Matrix right-inverse, to_Matrix vs independent map). Held = held on the executions observed; per branch cell a random point refutes a wrong polynomial identity with probability 1.",
            "2.C01", TRUST + "MRP products within cos^2(theta/4)<0.05 of the 360-degree singularity and Euler results within 2.5e-3 rad of gimbal lock excluded as the statement allows"),
    "C02": ("differential runtime monitoring vs scipy expm; predicate-bisection onto every Taylor switch; icontract post-condition on exp",
            "exp of every algebra/group pair (incl. direct sums) evaluated on corpus + random + switch-bracketing vectors up to 2pi-0.05 and compared with scipy.linalg.expm of the oracle's hat matrix; exp(0), exp(-x), exp((s+t)x) composition. Sampled, not proved.",
            "2.C02", TRUST + "scipy.linalg.expm accuracy ~1e-13; Euler targets in the gimbal band excluded"),
    "C03": ("differential runtime monitoring: round trips and principal-log oracle from axis-angle across all parameterisations",
            "exp(log X)=X as matrices and log(exp x)=x as parameters for every configuration, plus the same rotation expressed in quaternion (both signs), MRP, DCM and Euler form (also inside SE3/SE23) must all return angle*axis; rotation angles within 0.05 rad of pi excluded.",
            "2.C03", TRUST + "margin 0.05 rad to the pi singularity"),
    "C04": ("differential runtime monitoring vs matrix conjugation/commutators (least-squares vee on the oracle's basis)",
            "Ad/ad shapes, Ad_X = conjugation, ad_x y = [x,y] = bracket operator, antisymmetry, Jacobi, Ad_exp(x) = expm(ad_x) with an oracle ad, Ad homomorphism and inverse, for every group/algebra offering the operation.",
            "2.C04", TRUST + "operations raising NotImplementedError are out of scope"),
    "C05": ("differential runtime monitoring vs exact Frechet derivative of expm (scipy) and mpmath series; exact quadratic-form differential for quaternion/MRP kinematics",
            "J_l/J_r of so(3), se(3), se_2(3) against the exact directional derivative of the matrix exponential (no finite differences), inverses, J_l = Ad_exp J_r = J_r(-x), Q blocks; group-level quaternion (left/right) and MRP (right) kinematic Jacobians against [w]x R / R [w]x and norm preservation.",
            "2.C05", TRUST + "scipy.linalg.expm_frechet accuracy; angle < 2pi-0.05"),
    "C06": ("runtime monitoring vs 50-digit mpmath oracle on a log grid of angles with bisection to adjacent doubles at every switch; AD-finiteness monitors",
            "Every exp, log, log(exp), Jacobian/inverse/Q, calculate_N and SO(3) conversion evaluated from theta=0 and denormals through each internal switch (both adjacent doubles) up to 1 rad against an extended-precision reference with the 1e-9 absolute bound of the statement, jump across each switch, and casadi AD Jacobians finite at/around zero.",
            "2.C06", TRUST + "mpmath at 50+ digits treated as exact"),
    "C07": ("differential runtime monitoring of all 12 conversions + from_Matrix + shadow switch vs oracle matrices; branch-cell coverage required (4 Shepperd, 3 Euler, 2 shadow)",
            "Every ordered pair of SO(3) parameterisations plus the four from_Matrix entry points and shadow_if_necessary on rotations covering all axes, exact pi, near-identity, both quaternion signs, shadow MRPs and the gimbal poles; result validity (unit norm, |r|<=1, orthonormal det +1, pitch range). Inconclusive unless all branches were visited.",
            "2.C07", TRUST + "2.01e-3 matrix tolerance inside the documented 1e-3 rad gimbal band"),
    "C08": ("differential runtime monitoring vs 60-digit closed-form strapdown oracle and a 5x5 expm oracle for general increments; semigroup law over random step histories; numeric, element-level and by-name call paths",
            "strapdown_ins_propagate and SE23 exp_mixed against the exact solution of p'=v, v'=Ra-g e3, R'=R[w]x in mpmath for random states/inputs/dt incl. both sides of the coefficient switches; dt=0 identity; random step sequences vs one-shot propagation.",
            "2.C08", TRUST + "mpmath series summed to 1e-60"),
    "C09": ("differential execution of the generated C under clang ASan+UBSan (and valgrind memcheck in thorough) against the CasADi VM; symbol/ABI monitors",
            "All shipped generation entry points are run for real; output compiled with gcc -Wall -Werror; exported symbols, arity, names and sparsities compared with the source Functions; a generic driver with exactly-sized work arrays runs every function on random/zero/huge/NaN/branch-selecting inputs and compares with the Function evaluation; generator option combinations generated and (where compilable here) compiled and run.",
            "2.C09", TRUST + "clang/gcc/valgrind, libm shared between C and the CasADi VM; no structural C-vs-instruction matching"),
    "C10": ("differential runtime monitoring of matrix identities vs numpy/scipy on random well- and ill-conditioned inputs; order monitor for RK4",
            "sqrt_covariance_predict (lower-triangular, Lyapunov identity), sqrt_correct (gain, innovation factor, posterior, PSD), LDL/UDU reconstruction with unit-triangular factors, RK4 exactness on cubics and 4th-order error ratio, for n=1..8, m=1..4.",
            "2.C10", TRUST + "numpy.linalg"),
    "C11": ("contract monitors on the real estimator step functions with oracle-synthesised measurements; all error-code cells required",
            "initialize/predict/correct_mag/correct_accel from algorithms.eqs()['mrp'] on hostile inputs: exact initial attitude or non-zero code, never NaN; |r|<=1, lower-triangular W, 4th-order attitude accuracy; rejected correction bit-identical, accepted one finite and covariance non-increasing.",
            "2.C11", TRUST + "numpy oracle"),
    "C12": ("history monitoring of the real launch_sim runs: per-message sensor-model oracle, offline convergence checker on the log, interleaving signatures counted",
            "Noise-free closed-loop runs over random true attitudes, biases, inclination/declination, rate settings and both initialisation modes; every IMU/Mag message checked against the oracle sensor model; attitude error < 0.05 rad after 15 s of a 30 s run and each bias component error over the last 2 s <= max(80% of its 12-18 s value, 0.01 rad/s) -- a run that has not converged by then is re-run for 150 s and decided on (100 s, 150 s] (bounded-progress restatement of 'converges'); parameters set in random order and in several units/forms; configured magnitudes and periods checked against the configuration; steep inclinations (1.0-1.33 rad): initialisation only.",
            "2.C12", TRUST + "simpy scheduler; IMU rate >= 200 Hz, |inclination| <= 1 rad and |declination| <= 0.9 rad envelope for the convergence claim"),
    "C13": ("case-directed runtime monitoring of the allocator against an exact numpy case analysis; all saturation cells required incl. exact C1=0/C2=0 boundaries",
            "control_allocation on random and boundary-constructed demands: bounds, finite non-negative speeds, exact reproduction when jointly achievable, moment preservation with least collective shift when the moment alone fits.",
            "2.C13", TRUST + "numpy oracle with power-of-two geometry for exact boundaries"),
    "C14": ("runtime monitoring of set-point functions incl. degenerate branches; flatness rates checked by exact AD along random polynomial trajectories",
            "Unit quaternion / proper rotation, thrust-axis and heading alignment, thrust norm, p/q rates vs AD derivative of the returned attitude, Euler's equation, f_ref vs mr_ref_traj, on both sides of every norm-threshold branch.",
            "2.C14", TRUST + "casadi AD as exact derivative"),
    "C15": ("invariant monitors over long closed recursions (histories) + error-law oracle over attitude pairs incl. antipodal quaternions",
            "Integrator clamp, filter coefficient, position-term saturation, yaw wrap, 2 m leash, reset, stick linearity/bounds checked at every step of random and adversarial step sequences; attitude error laws zero iff same rotation and reach the reference.",
            "2.C15", TRUST + "numpy oracle"),
    "C16": ("differential runtime monitoring of the model against Newton-Euler rebuilt from rotor geometry, over random parameter sets",
            "q.qdot=0, hover equilibrium, free-fall accelerometer, force/moment per rotor, zero moment on symmetric frames, yaw/translation equivariance, motor relaxation with the right time constants.",
            "2.C16", TRUST + "numpy oracle"),
    "C17": ("closed-loop trajectory monitoring (histories): invariants each step, convergence over the last 5 s",
            "Both shipped cascades wired as in scripts/rdd2_sim.py around the real model with RK4 at 1 ms / control at 100 Hz from random and structured (axis-aligned, exact-zero) initial conditions in the envelope, gains and plant parameters as run-time inputs; finite, motor limits, above ground, never turned over, position error < 5 cm over the last 5 s (30 s runs; 45 s for the log-linear cascade), settled attitude/rates.",
            "2.C17", TRUST + "harness reproduces the simulator's wiring and gains; commanded heading: any for the position controller, |psi| <= 0.7 rad for the log-linear cascade (the pinned tree diverges beyond ~1 rad)"),
    "C18": ("differential runtime monitoring vs exact Bernstein polynomials in rational arithmetic; AD consistency of derivative rows",
            "Bezier.eval/deriv for degree 1-10, dims 1-4, t inside/outside [0,T]; solvers' boundary conditions at both ends; *_traj and bezier_multirotor rows are successive time derivatives.",
            "2.C18", TRUST + "fractions.Fraction oracle"),
    "C19": ("grammar-based differential testing of both converters: random expression trees evaluated at random domain points",
            "Random SymPy trees over the accepted grammar (ints, rationals, non-integer/negative floats, powers, roots, trig, matrices, f_dict, cse) and random SX trees over every translated opcode are converted and both sides evaluated numerically; symbol-table consistency.",
            "2.C19", TRUST + "mpmath/sympy evaluation of the source"),
    "C20": ("history recording at the publisher/subscriber boundary + offline sequential-model checker (nested and same-topic publishes, re-used messages, source-clock stamps, node-side parameter sets); hostile publisher and mid-run parameter broadcasts against the real estimator node",
            "Random topologies and timing patterns on the real Core/Publisher/Subscriber/Param/Logger: exactly-once synchronous in-order delivery to the right nodes, type rejection, parameter propagation, logger rows; estimator dt guard and correction rate limits under duplicate/decreasing/bursty stamps.",
            "2.C20", TRUST + "simpy scheduler"),
}


def main():
    checks = []
    na = []
    for pid in sorted(CHECKS):
        tech, text, ref, note = CHECKS[pid]
        if not os.path.exists(os.path.join(V, "vlib", "props", pid.lower() + ".py")):
            na.append({"property_id": pid, "reason": "check not built yet (under construction; the technique applies)"})
            continue
        checks.append({
            "property_id": pid,
            "quick_cmd": "./check %s quick" % pid,
            "thorough_cmd": "./check %s thorough" % pid,
            "evidence_file": "/verif/evidence/%s.json" % pid,
            "replay_cmd_template": "./check %s --replay {path}" % pid,
            "engine": "vlib",
            "level_claimed": {"category": "exploration", "text": text, "design_ref": "DESIGN.md section " + ref},
            "level_note": note,
            "technique": tech,
        })
    man = {
        "version": 1,
        "setup_cmd": "./setup.sh",
        "hooks": {
            "guard": "CYECCA_VERIF",
            "enable": "no hooks live in /repo: every monitor is attached from /verif by wrapping classes/functions at import time (guard name reserved, unused)",
            "baseline_off_cmd": "cd /repo && /venv/bin/python -m pytest -ra -q -p no:cacheprovider --timeout=900 --continue-on-collection-errors",
            "source_commits": [],
            "add_only": True,
        },
        "engines": [{"name": "vlib", "path": "/verif/vlib", "serves_properties": [c["property_id"] for c in checks],
                     "kind_free_text": "runtime monitoring: sharded workloads on the real code, oracles, contracts, branch-cell probes, history checkers, sanitizers for generated C"}],
        "checks": checks,
        "not_applicable": na,
        "notes": "exit 0 held / 1 VIOLATION / 2 INCONCLUSIVE; known findings in known_findings.json; VERIF_SEED honoured",
    }
    with open(os.path.join(V, "MANIFEST.json"), "w") as f:
        json.dump(man, f, indent=1)
    import jsonschema
    jsonschema.validate(man, json.load(open("/root/.vp/MANIFEST.schema.json")))
    print("manifest ok: %d checks, %d not yet built" % (len(checks), len(na)))


if __name__ == "__main__":
    main()
