#!/usr/bin/env python3
"""Regenerates the catch-matrix table at the end of DESIGN.md section 8 from seeded/*/meta.json."""
import glob, json, os, re
root = os.path.dirname(os.path.dirname(os.path.abspath(__file__)))
rows = []
for d in sorted(glob.glob(os.path.join(root, "seeded", "C??-m*")), key=lambda p: (os.path.basename(p).split("-")[0], int(os.path.basename(p).split("-m")[1]))):
    m = json.load(open(os.path.join(d, "meta.json")))
    fe = m.get("first_evaluation", {})
    v = fe.get("verdict", "?")
    first = {"VIOLATION": "caught", "HELD": "**missed**", "INCONCLUSIVE": "**inconclusive**"}.get(v, v)
    keys = fe.get("violation_keys", [])
    note = ""
    if v != "VIOLATION":
        a = m.get("after_strengthening", {})
        keys = a.get("violation_keys", [])
        note = "caught after strengthening" if a.get("verdict") == "VIOLATION" else "NOT caught"
    ks = ", ".join("`%s`" % k for k in keys[:2])
    rows.append("| %s | %s | %s | %s | %s |" % (os.path.basename(d), m.get("needs_to_manifest", "").replace("|", "/"), first, ks, note))
p = os.path.join(root, "DESIGN.md")
s = open(p).read()
head = "| change | needs | quick tier, first evaluation | violation keys (first two) | |\n|---|---|---|---|---|\n"
i = s.index("| change | needs |")
s = s[:i] + head + "\n".join(rows) + "\n"
open(p, "w").write(s)
print(len(rows), "rows")
