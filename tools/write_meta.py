#!/usr/bin/env python3
"""tools/write_meta.py <round> <descriptions.json>
descriptions.json: {"C01-m9": "what the change needs in order to manifest", ...}.  Writes seeded/<key>/meta.json from the
eval.txt that tools/store_round.sh left there (first evaluation)."""
import json, re, sys, os
root = os.path.dirname(os.path.dirname(os.path.abspath(__file__)))
rnd = int(sys.argv[1])
D = json.load(open(sys.argv[2]))
for k, desc in D.items():
    d = os.path.join(root, "seeded", k)
    ev = open(d + "/eval.txt").read()
    patch = open(d + "/patch.diff").read()
    files = sorted(set(re.findall(r"^\+\+\+ b/(\S+)", patch, re.M)))
    verdict = (re.findall(r"^(HELD|VIOLATION|INCONCLUSIVE)", ev, re.M) or ["NONE"])[0]
    keys = sorted(set(re.findall(r"replays/[A-Z0-9]+-(\S+?)\.json", ev)))
    tests = (re.findall(r"tests: (.*)", ev) or ["?"])[0]
    meta = {"property": k.split("-")[0], "mutant": k.split("-")[1], "round": rnd, "files_changed": files,
            "source": "independent sub-agent given only the property text, a scratch worktree and one-line descriptions of the earlier changes to avoid",
            "needs_to_manifest": desc,
            "confirmed": {"demo_on_clean_tree_rc": int(re.findall(r"demo_clean_rc=(\d+)", ev)[0]), "demo_on_mutated_tree_rc": int(re.findall(r"demo_mutant_rc=(\d+)", ev)[0]),
                          "repo_tests_on_mutated_tree": tests, "how": "tools/store_round.sh -> tools/mutant_eval.sh (scratch worktree of /repo HEAD, CYECCA_VERIF_REPO override)"},
            "first_evaluation": {"tier": "quick", "seed": 0, "verdict": verdict, "violation_keys": keys[:6]}}
    json.dump(meta, open(d + "/meta.json", "w"), indent=1)
    print(k, verdict, meta["confirmed"]["demo_on_clean_tree_rc"], meta["confirmed"]["demo_on_mutated_tree_rc"], tests[:24])
