#!/bin/bash
# tools/mutant_eval.sh <ID> <patch.diff> <demo.py> [tier]   -- evaluate one seeded change in a scratch worktree of /repo HEAD
# prints: demo on clean / demo on mutant / repo tests on mutant / check verdict on mutant
ID=$1; PATCH=$(readlink -f $2); DEMO=$(readlink -f $3); TIER=${4:-quick}
W=/tmp/muteval/$ID-$$
mkdir -p /tmp/muteval
git -C /repo worktree add -q --detach $W HEAD || exit 9
trap 'git -C /repo worktree remove --force $W >/dev/null 2>&1' EXIT
cd $W
PYTHONPATH=$W timeout 600 /venv/bin/python $DEMO >/dev/null 2>&1; echo "demo_clean_rc=$?"
git apply $PATCH || { echo "patch does not apply"; exit 8; }
PYTHONPATH=$W timeout 600 /venv/bin/python $DEMO >/dev/null 2>&1; echo "demo_mutant_rc=$?"
if [ "$SKIP_TESTS" != "1" ]; then
  PYTHONPATH=$W timeout 1500 /venv/bin/python -m pytest -q -p no:cacheprovider --timeout=900 tests 2>&1 | grep -E "passed|failed" | tail -1 | sed 's/^/tests: /'
fi
cd /verif
out=$(CYECCA_VERIF_REPO=$W VERIF_KEEP_EVIDENCE=1 ./check $ID $TIER 2>/dev/null | grep -E "^(HELD|VIOLATION|INCONCLUSIVE|KNOWN-FINDING)|key=" | head -8 | cut -c1-260)
echo "check[$ID $TIER]:"; echo "$out"
