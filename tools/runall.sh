#!/bin/bash
# tools/runall.sh <tier> [seed...]  -- run every check, print one line per check
cd "$(dirname "$0")/.."
tier=${1:-quick}; shift
seeds=${@:-0}
for s in $seeds; do
  for i in $(seq -w 1 20); do
    id=C$i
    t0=$(date +%s)
    out=$(VERIF_SEED=$s ./check $id $tier 2>/dev/null | grep -E "^(HELD|VIOLATION|INCONCLUSIVE|KNOWN-FINDING)" | head -3 | tr '\n' ' ')
    rc=$?
    echo "seed=$s $id $(( $(date +%s)-t0 ))s $out"
  done
done
