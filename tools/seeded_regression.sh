#!/bin/bash
# tools/seeded_regression.sh [lanes] [jobs-per-lane] [tier]
# Re-evaluates every stored seeded change (seeded/<ID>-mK/patch.diff) against the current checks, each in its own scratch
# worktree of /repo HEAD (never /repo itself), and prints one line per change.  Lanes run different property ids in
# parallel (evidence of override runs is per id under .work/override, so one id is never run twice at once).
cd "$(dirname "$0")/.."
LANES=${1:-3}; JOBS=${2:-5}; TIER=${3:-quick}
OUT=.work/seeded_regression; rm -rf $OUT; mkdir -p $OUT
ids=$(ls seeded | grep -E '^C[0-9]+-m[0-9]+$' | cut -d- -f1 | sort -u)
lane() {
  for id in "$@"; do
    for d in seeded/$id-m*; do
      [ -f $d/patch.diff ] || continue
      demo=$(ls $d/demo* 2>/dev/null | head -1)
      r=$(SKIP_TESTS=1 VERIF_JOBS=$JOBS tools/mutant_eval.sh $id $d/patch.diff $demo $TIER 2>&1)
      v=$(echo "$r" | grep -E "^(HELD|VIOLATION|INCONCLUSIVE)" | head -1 | cut -d' ' -f1)
      echo "$(basename $d) ${v:-NONE} $(echo "$r" | grep -E '^demo_' | tr '\n' ' ')" | tee -a $OUT/summary.txt
      echo "$r" > $OUT/$(basename $d).txt
    done
  done
}
i=0; declare -a L
for id in $ids; do L[$((i % LANES))]+=" $id"; i=$((i+1)); done
for k in $(seq 0 $((LANES-1))); do lane ${L[$k]} & done
wait
echo "---"; sort $OUT/summary.txt | awk '{c[$2]++} END{for(k in c) print k, c[k]}'
