#!/usr/bin/env python3
"""One-off: records the argument and result names of every shipped CasADi Function (all derive_* of the model modules, the
attitude-estimator equation sets) into vlib/signatures.json.  The checks use it as the documented calling convention when
they call a function by argument name.  Run with /venv/bin/python from /verif; re-run only when an interface is changed on
purpose."""
import contextlib, io, json, os, sys
sys.path.insert(0, os.environ.get("CYECCA_VERIF_REPO", "/repo"))
import casadi as ca
with contextlib.redirect_stdout(io.StringIO()):
    from cyecca.models import rdd2, rdd2_loglinear, bezier, quadrotor, mr_ref_traj
    from cyecca.estimate.attitude import algorithms
out = {}
def add(prefix, f):
    out[prefix + ":" + f.name()] = {"in": [f.name_in(i) for i in range(f.n_in())], "out": [f.name_out(i) for i in range(f.n_out())]}
def walk(prefix, r):
    if isinstance(r, ca.Function):
        add(prefix, r)
    elif isinstance(r, dict):
        for v in r.values():
            walk(prefix, v)
for mod in (rdd2, rdd2_loglinear, bezier, quadrotor, mr_ref_traj):
    for n in sorted(dir(mod)):
        if n.startswith("derive_") and callable(getattr(mod, n)):
            try:
                with contextlib.redirect_stdout(io.StringIO()):
                    walk(mod.__name__.split(".")[-1], getattr(mod, n)())
            except Exception as e:
                print("skip", mod.__name__, n, type(e).__name__, file=sys.stderr)
with contextlib.redirect_stdout(io.StringIO()):
    eqs = algorithms.eqs()
for k, v in eqs.items():
    walk("attitude." + k, v)
json.dump(out, open(os.path.join(os.path.dirname(os.path.dirname(os.path.abspath(__file__))), "vlib", "signatures.json"), "w"), indent=1, sort_keys=True)
print(len(out), "functions")
