#!/bin/bash
# tools/store_round.sh <ID> <srcdir> <round> <first-index>
# Confirms the two changes a sub-agent left in <srcdir>/<ID>/ (m1.diff, m1_demo.py, m2.diff, m2_demo.py, notes.md) in a
# scratch worktree (demo passes on HEAD / fails with the change, repo tests unchanged), runs the quick check against them
# and stores them as seeded/<ID>-m<first-index>, seeded/<ID>-m<first-index+1> with the raw evaluation in eval.txt.
cd "$(dirname "$0")/.."
ID=$1; SRC=$2/$ID; ROUND=$3; K=$4
for j in 1 2; do
  n=$((K + j - 1)); d=seeded/$ID-m$n
  [ -f $SRC/m$j.diff ] && [ -f $SRC/m${j}_demo.py ] || { echo "$ID m$j: missing deliverables"; continue; }
  mkdir -p $d; cp $SRC/m$j.diff $d/patch.diff; cp $SRC/m${j}_demo.py $d/demo.py
  tools/mutant_eval.sh $ID $d/patch.diff $d/demo.py quick > $d/eval.txt 2>&1
  echo "== $ID-m$n"; grep -v WARNING $d/eval.txt | head -12
done
[ -f $SRC/notes.md ] && cp $SRC/notes.md seeded/$ID-notes-round$ROUND.md
